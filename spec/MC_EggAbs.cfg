SPECIFICATION MCSpec
VIEW View
INVARIANT StateConsistent
CHECK_DEADLOCK FALSE
