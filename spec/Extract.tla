------------------------------ MODULE Extract ------------------------------
(* Extraction (src/extract.rs).

   Reference semantics: MinCost is the least fixpoint of the tree-additive cost
   over extractable, non-subsumed constructor rows with SATURATING addition.
   Costs are u64 in the code; the specification keeps the arithmetic exact on a
   scaled copy: Huge stands for i64::MAX (the largest :cost that can be written),
   Cap = 2 Huge + 1 for u64::MAX, and a real cost a * i64::MAX + b (b small) is
   logged by the harness as a * Huge + b.

   Algorithm: BF transcribes Extractor::bellman_ford -- relaxation passes over the
   rows in scan order until a pass changes nothing, every successful relaxation
   giving the class a fresh rank; then save_best_parent_edge keeps, per class, the
   first row whose cost equals the best cost and whose children all have a
   strictly smaller rank.  Rows use the EggAbs format [f, a, o, s].            *)
EXTENDS EggAbs

Huge == 100000000            \* stands for i64::MAX, the largest :cost the parser accepts
Cap == 2 * Huge + 1          \* stands for u64::MAX = 2 * i64::MAX + 1, where addition saturates
Sat(n) == IF n >= Cap THEN Cap ELSE n
HeadCost(f) == Sat(Fn(f).cost)
Unext(f) == Has(Fn(f), "unext") /\ Fn(f).unext
Usable(r) == IsCon(r.f) /\ EqOut(r.f) /\ ~r.s /\ ~Unext(r.f) /\ ~(Has(Fn(r.f), "rel") /\ Fn(r.f).rel)

Undef == -1

\* cost of a row given the class costs (Undef if a child class has no cost); base values cost 1
RECURSIVE RowCostFrom(_, _, _, _)
RowCostFrom(cost, r, i, acc) ==
  IF i > Len(r.a) THEN acc
  ELSE IF EqArg(r.f, i) THEN
         (IF r.a[i] \notin DOMAIN cost \/ cost[r.a[i]] = Undef THEN Undef
          ELSE RowCostFrom(cost, r, i + 1, Sat(acc + cost[r.a[i]])))
  ELSE RowCostFrom(cost, r, i + 1, Sat(acc + 1))
RowCost(cost, r) == RowCostFrom(cost, r, 1, HeadCost(r.f))

MinOfInts(S) == CHOOSE m \in S : \A x \in S : m <= x

\* ---- reference: least fixpoint
RECURSIVE MinFix(_, _)
MinFix(R, cost) ==
  LET c2 == [c \in DOMAIN cost |->
              LET cs == {RowCost(cost, r) : r \in {q \in R : Usable(q) /\ q.o = c}} \ {Undef}
                  all == cs \cup (IF cost[c] = Undef THEN {} ELSE {cost[c]})
              IN IF all = {} THEN Undef ELSE MinOfInts(all)]
  IN IF c2 = cost THEN cost ELSE MinFix(R, c2)
MinCost(R) == MinFix(R, [c \in ClassIds(R) |-> Undef])

\* ---- the algorithm, over a sequence of rows G (scan order)
Inf == 1000000
RnkOf(rnk, c) == IF c \in DOMAIN rnk /\ rnk[c] # 0 THEN rnk[c] ELSE Inf
MaxRnk(rnk, r) ==
  LET S == {RnkOf(rnk, r.a[i]) : i \in {j \in 1 .. Len(r.a) : EqArg(r.f, j)}} IN
  IF S = {} THEN 0 ELSE CHOOSE m \in S : \A x \in S : x <= m

\* one relaxation pass: st = [cost, rnk, cnt, upd]
RECURSIVE Pass(_, _, _)
Pass(G, i, st) ==
  IF i > Len(G) THEN st
  ELSE LET r == G[i]
           nc == IF Usable(r) THEN RowCost(st.cost, r) ELSE Undef
       IN IF nc # Undef /\ (st.cost[r.o] = Undef \/ nc < st.cost[r.o])
          THEN Pass(G, i + 1, [cost |-> [st.cost EXCEPT ![r.o] = nc],
                                rnk |-> [st.rnk EXCEPT ![r.o] = st.cnt + 1],
                                cnt |-> st.cnt + 1, upd |-> TRUE])
          ELSE Pass(G, i + 1, st)

RECURSIVE Relax(_, _)
Relax(G, st) ==
  LET s2 == Pass(G, 1, [st EXCEPT !.upd = FALSE]) IN
  IF s2.upd THEN Relax(G, s2) ELSE s2

NoRow == [none |-> TRUE]
RECURSIVE Save(_, _, _, _)
Save(G, i, st, par) ==
  IF i > Len(G) THEN par
  ELSE LET r == G[i] IN
       IF Usable(r) /\ st.cost[r.o] # Undef /\ RowCost(st.cost, r) = st.cost[r.o]
          /\ st.rnk[r.o] > MaxRnk(st.rnk, r) /\ par[r.o] = NoRow
       THEN Save(G, i + 1, st, [par EXCEPT ![r.o] = r])
       ELSE Save(G, i + 1, st, par)

SetOfSeq(G) == {G[i] : i \in 1 .. Len(G)}

BF(G) ==
  LET ids == ClassIds(SetOfSeq(G))
      st == Relax(G, [cost |-> [c \in ids |-> Undef], rnk |-> [c \in ids |-> 0], cnt |-> 0, upd |-> FALSE])
  IN [cost |-> st.cost, rnk |-> st.rnk, parent |-> Save(G, 1, st, [c \in ids |-> NoRow])]

\* ---- what C07 demands of the algorithm's result
CostIsMin(G, x) == x.cost = MinCost(SetOfSeq(G))
HasCostHasParent(G, x) == \A c \in DOMAIN x.cost : x.cost[c] # Undef => x.parent[c] # NoRow
\* the chosen rows form a well-founded (acyclic) choice: reconstruction terminates
ParentsWellFounded(G, x) ==
  \A c \in DOMAIN x.cost : x.parent[c] # NoRow =>
     LET r == x.parent[c] IN
     /\ r.o = c /\ Usable(r)
     /\ \A i \in 1 .. Len(r.a) : EqArg(r.f, i) => (x.parent[r.a[i]] # NoRow /\ x.rnk[r.a[i]] < x.rnk[c])
\* the tree cost of the reconstructed term is the reported cost
RECURSIVE TreeCost(_, _, _)
TreeCost(x, c, fuel) ==
  IF fuel = 0 \/ x.parent[c] = NoRow THEN Undef
  ELSE LET r == x.parent[c]
           cs == [i \in 1 .. Len(r.a) |-> IF EqArg(r.f, i) THEN TreeCost(x, r.a[i], fuel - 1) ELSE 1]
       IN IF \E i \in 1 .. Len(cs) : cs[i] = Undef THEN Undef
          ELSE LET RECURSIVE Sum(_, _)
                   Sum(i, acc) == IF i > Len(cs) THEN acc ELSE Sum(i + 1, Sat(acc + cs[i]))
               IN Sum(1, HeadCost(r.f))
TermCostIsCost(G, x) ==
  (HasCostHasParent(G, x) /\ ParentsWellFounded(G, x)) =>
     \A c \in DOMAIN x.cost : x.cost[c] # Undef => TreeCost(x, c, Cardinality(DOMAIN x.cost) + 1) = x.cost[c]

\* ---- oracle on terms returned by the real extractor (trace validation)
\* term: [i |-> n] | [n |-> "F", a |-> <<term..>>]
FIdx(name) == CHOOSE f \in 1 .. Len(prog.funcs) : prog.funcs[f].name = name
KnownFn(name) == \E f \in 1 .. Len(prog.funcs) : prog.funcs[f].name = name

\* evaluates a returned term: [v |-> class/value or <<>>, cost |-> tree cost, ok |-> only usable rows, root |-> <<f, args>>]
RECURSIVE EvalT(_, _)
EvalT(R, t) ==
  IF Has(t, "i") THEN [v |-> IntV(t.i), cost |-> 1, ok |-> TRUE, root |-> <<>>]
  ELSE IF ~KnownFn(t.n) THEN [v |-> <<>>, cost |-> 0, ok |-> FALSE, root |-> <<>>]
  ELSE LET f == FIdx(t.n)
           es == [k \in 1 .. Len(t.a) |-> EvalT(R, t.a[k])]
           as == [k \in 1 .. Len(es) |-> es[k].v]
           RECURSIVE Sum(_, _)
           Sum(i, acc) == IF i > Len(es) THEN acc ELSE Sum(i + 1, Sat(acc + es[i].cost))
       IN IF \E k \in 1 .. Len(as) : as[k] = <<>> THEN [v |-> <<>>, cost |-> 0, ok |-> FALSE, root |-> <<>>]
          ELSE LET hit == RowsAt(R, f, as) IN
               IF hit = {} THEN [v |-> <<>>, cost |-> 0, ok |-> FALSE, root |-> <<>>]
               ELSE LET r == CHOOSE q \in hit : TRUE IN
                    [v |-> r.o, cost |-> Sum(1, HeadCost(f)),
                     ok |-> Usable(r) /\ \A k \in 1 .. Len(es) : es[k].ok, root |-> <<f, as>>]
=============================================================================
