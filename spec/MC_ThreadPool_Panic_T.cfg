SPECIFICATION Spec
CONSTANTS
  W = 2
  MaxTasks = 3
  MaxScopes = 3
  HelpDepth = 1
  MaxBackup = 1
  AllowPanic = TRUE
INVARIANTS Safety FinishedOK
PROPERTY Terminates
