----------------------------- MODULE MC_ConcUF -----------------------------
EXTENDS ConcUF
U(a, b) == [op |-> "union", a |-> a, b |-> b]
F(a) == [op |-> "find", a |-> a, b |-> a]
S(a, b) == [op |-> "same", a |-> a, b |-> b]
\* three threads, one operation each: a union whose root is displaced between its find and its CAS
ProgA == (1 :> <<U(2, 3)>>) @@ (2 :> <<U(1, 2)>>) @@ (3 :> <<F(3)>>)
\* two threads, two operations each, growth beyond the initial capacity
ProgB == (1 :> <<U(0, 3), F(2)>>) @@ (2 :> <<U(2, 3), S(0, 2)>>)
\* competing unions on the same roots and a same_set racing them
ProgC == (1 :> <<U(0, 1), U(1, 2)>>) @@ (2 :> <<U(1, 2), F(2)>>) @@ (3 :> <<S(0, 2)>>)
\* chains: path splitting concurrent with linking
ProgD == (1 :> <<U(2, 3), U(1, 2), F(3)>>) @@ (2 :> <<U(0, 1), F(3)>>)
=============================================================================
