SPECIFICATION Spec
CONSTANTS NClasses = 2
 MaxRows = 3
 Saturating = FALSE
 EmitReplay = TRUE
INVARIANT CostIsMinInv HasCostHasParentInv ParentsWellFoundedInv TermCostIsCostInv Replay
CHECK_DEADLOCK FALSE
