---- MODULE MC_ConcVec ----
EXTENDS ConcVec
====
