SPECIFICATION TraceSpec
CONSTANTS Keys = {0, 1, 2, 3}
 Vals = {1, 2, 3}
 MaxTs = 6
 KeepTs = TRUE
 Thresh = 16
INVARIANT HashConsistent LookupIsModel ScanIsModel SortedByTs
CHECK_DEADLOCK FALSE
