--------------------------- MODULE UnionFind_Trace ---------------------------
(* Trace validation for the sequential union-find: every recorded call of the
   real egglog_union_find::UnionFind must be the corresponding action of
   UnionFind, with the logged return value and the logged representatives
   (find_naive of every id, taken after the call) equal to the model's.      *)
EXTENDS UnionFind, TLC, Json, IOUtils

Rec == ndJsonDeserialize(IOEnv.TRACE)

VARIABLE l

TraceInit == Init /\ l = 1

IsEvent(e) == l <= Len(Rec) /\ Rec[l].e = e /\ l' = l + 1

\* logged observation after the call: reps[i+1] = find_naive(i), ret = <<x, y>>
Observed ==
  /\ \A i \in Ids : Root(parent', i) = Rec[l].reps[i + 1]
  /\ out'[2] = Rec[l].ret[1]
  /\ out'[3] = Rec[l].ret[2]

TNew == /\ IsEvent("new")
        /\ parent' = [i \in Ids |-> i] /\ len' = 0 /\ cls' = [i \in Ids |-> i] /\ out' = <<"init">>

TUnion     == IsEvent("union") /\ Union(Rec[l].a, Rec[l].b) /\ Observed
TFind      == IsEvent("find") /\ Find(Rec[l].a) /\ Observed
TFindNaive == IsEvent("find_naive") /\ FindNaive(Rec[l].a) /\ Observed
TReset     == IsEvent("reset") /\ Reset /\ Observed

TraceNext == TNew \/ TUnion \/ TFind \/ TFindNaive \/ TReset

TraceSpec == TraceInit /\ [][TraceNext]_<<vars, l>>
=============================================================================
