SPECIFICATION MCSpec
VIEW View
INVARIANT StateConsistent ChooseAllIsRun FairReachesSat NothingLost CollectedAccounted
CHECK_DEADLOCK FALSE
