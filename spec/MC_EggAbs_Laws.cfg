SPECIFICATION MCSpec
VIEW View
INVARIANT StateConsistent SchedLaws SatIsFixpoint
CHECK_DEADLOCK FALSE
