------------------------------- MODULE Syntax -------------------------------
(* Concrete syntax of egglog commands as the printers are SPECIFIED to produce it
   (src/ast/mod.rs Display for GenericCommand / GenericSchedule / GenericRunConfig,
   egglog-ast generic_ast_helpers.rs Display for rules, actions, facts, expressions,
   literals): Print maps a syntax tree (records) to a sequence of tokens.  Tokens
   are "(" , ")" , atoms and quoted strings; a float literal is the token
   "<f:BITS>" (its IEEE bits in hex): the textual form of a float is not specified,
   its VALUE is.  C15: the text a tree prints to parses back to a tree that prints
   to the same tokens.

   Trees (field k = kind):
     expr   [k |-> "var", n] | [k |-> "lit", l] | [k |-> "call", f, a]
     lit    [t |-> "int" | "bool" | "unit" | "str" | "float", v]   (v: the token text; for "str" the RAW
            characters as a sequence of 1-character strings; for "float" the bits)
     fact   [k |-> "eq", l, r] | [k |-> "fact", e]
     action let / set / union / delete / subsume / panic / expr
     sched  run / repeat / saturate / seq
     command constructor / function / relation / ruleset / combined / rule / rewrite / birewrite / run /
            check / extract / push / pop / printfn / printsize / fail                         *)
EXTENDS Integers, Sequences, FiniteSets, TLC

RECURSIVE Cat(_)
Cat(ss) == IF ss = <<>> THEN <<>> ELSE Head(ss) \o Cat(Tail(ss))
Par(ss) == <<"(">> \o Cat(ss) \o <<")">>
Map(f(_), s) == [i \in 1 .. Len(s) |-> f(s[i])]

\* a string literal: backslash and double quote are escaped, everything else is verbatim
RECURSIVE Esc(_)
Esc(cs) == IF cs = <<>> THEN ""
           ELSE (IF Head(cs) = "\\" THEN "\\\\" ELSE IF Head(cs) = "\"" THEN "\\\"" ELSE Head(cs)) \o Esc(Tail(cs))
StrTok(cs) == "\"" \o Esc(cs) \o "\""

LitTok(l) == IF l.t = "str" THEN StrTok(l.v) ELSE IF l.t = "float" THEN "<f:" \o l.v \o ">" ELSE l.v

RECURSIVE PExpr(_)
PExpr(e) ==
  IF e.k = "var" THEN <<e.n>>
  ELSE IF e.k = "lit" THEN (IF e.l.t = "unit" THEN <<"(", ")">> ELSE <<LitTok(e.l)>>)
  ELSE Par(<< <<e.f>> >> \o [i \in 1 .. Len(e.a) |-> PExpr(e.a[i])])

PFact(x) == IF x.k = "eq" THEN Par(<< <<"=">>, PExpr(x.l), PExpr(x.r) >>) ELSE PExpr(x.e)
PFacts(fs) == Cat([i \in 1 .. Len(fs) |-> PFact(fs[i])])

PAction(a) ==
  IF a.k = "let" THEN Par(<< <<"let", a.n>>, PExpr(a.e) >>)
  ELSE IF a.k = "set" THEN Par(<< <<"set">>, PExpr(a.l), PExpr(a.r) >>)
  ELSE IF a.k = "union" THEN Par(<< <<"union">>, PExpr(a.l), PExpr(a.r) >>)
  ELSE IF a.k \in {"delete", "subsume"} THEN Par(<< <<a.k>>, PExpr(a.e) >>)
  ELSE IF a.k = "panic" THEN <<"(", "panic", StrTok(a.m), ")">>
  ELSE PExpr(a.e)
PActions(as) == Cat([i \in 1 .. Len(as) |-> PAction(as[i])])

\* w = FALSE: the specified printing (the body of run-schedule / saturate / repeat is an implicit sequence);
\* w = TRUE: the implementation's deviation -- the implicit sequence the parser builds is printed as an explicit (seq ..)
RECURSIVE PSchedG(_, _)
PSchedG(s, w) ==
  LET body(b) == IF w THEN << Par(<< <<"seq">> >> \o [i \in 1 .. Len(b) |-> PSchedG(b[i], w)]) >>
                 ELSE [i \in 1 .. Len(b) |-> PSchedG(b[i], w)]
  IN
  IF s.k = "run" THEN Par(<< <<"run">>, (IF s.rs = "" THEN <<>> ELSE <<s.rs>>),
                             (IF Len(s.until) = 0 THEN <<>> ELSE <<":until">> \o PFacts(s.until)) >>)
  ELSE IF s.k = "repeat" THEN Par(<< <<"repeat", s.n>> >> \o body(s.b))
  ELSE IF s.k = "saturate" THEN Par(<< <<"saturate">> >> \o body(s.b))
  ELSE Par(<< <<"seq">> >> \o [i \in 1 .. Len(s.b) |-> PSchedG(s.b[i], w)])
PSched(s) == PSchedG(s, FALSE)

Schema(c) == <<"(">> \o c.ins \o <<")", c.out>>
Opt(b, toks) == IF b THEN toks ELSE <<>>

RECURSIVE PCmdG(_, _)
PCmdG(c, w) ==
  IF c.k = "constructor" THEN Par(<< <<"constructor", c.name>>, Schema(c), Opt(c.cost # "", <<":cost", c.cost>>), Opt(c.unext, <<":unextractable">>) >>)
  ELSE IF c.k = "function" THEN Par(<< <<"function", c.name>>, Schema(c),
                                       (IF c.merge.k = "none" THEN <<":no-merge">> ELSE <<":merge">> \o PExpr(c.merge)),
                                       Opt(c.unext, <<":unextractable">>) >>)
  ELSE IF c.k = "relation" THEN Par(<< <<"relation", c.name, "(">>, c.ins, <<")">> >>)
  ELSE IF c.k = "ruleset" THEN <<"(", "ruleset", c.name, ")">>
  ELSE IF c.k = "combined" THEN Par(<< <<"unstable-combined-ruleset", c.name>>, c.subs >>)
  ELSE IF c.k = "rule" THEN Par(<< <<"rule">>, Par(<<PFacts(c.body)>>), Par(<<PActions(c.head)>>),
                                   Opt(c.rs # "", <<":ruleset", c.rs>>), <<":name", StrTok(c.name)>>,
                                   Opt(c.mode = "naive", <<":naive">>), Opt(c.mode = "unsafe", <<":unsafe-seminaive">>),
                                   Opt(c.nodecomp, <<":no-decomp">>) >>)
  ELSE IF c.k \in {"rewrite", "birewrite"} THEN
       Par(<< <<c.k>>, PExpr(c.l), PExpr(c.r), Opt(c.k = "rewrite" /\ c.subsume, <<":subsume">>),
              Opt(Len(c.when) > 0, <<":when">> \o Par(<<PFacts(c.when)>>)), Opt(c.rs # "", <<":ruleset", c.rs>>) >>)
  ELSE IF c.k = "run" THEN Par(<< <<"run-schedule">>, (IF w THEN Par(<< <<"seq">>, PSchedG(c.s, w) >>) ELSE PSchedG(c.s, w)) >>)
  ELSE IF c.k = "check" THEN Par(<< <<"check">>, PFacts(c.facts) >>)
  ELSE IF c.k = "extract" THEN Par(<< <<"extract">>, PExpr(c.e), PExpr(c.n) >>)
  ELSE IF c.k \in {"push", "pop"} THEN <<"(", c.k, c.n, ")">>
  ELSE IF c.k = "printfn" THEN Par(<< <<"print-function", c.name>>, Opt(c.n # "", <<c.n>>), Opt(c.file # <<>>, <<":file", StrTok(c.file)>>),
                                      Opt(c.csv, <<":mode", "csv">>) >>)
  ELSE IF c.k = "printsize" THEN Par(<< <<"print-size">>, c.names >>)
  ELSE IF c.k = "action" THEN PAction(c.a)
  ELSE Par(<< <<"fail">>, PCmdG(c.c, w) >>)

Tokens(c) == PCmdG(c, FALSE)
\* the printing with the implementation's extra (seq ..) wrappers (a recorded deviation, see known_findings.json)
TokensW(c) == PCmdG(c, TRUE)
=============================================================================
