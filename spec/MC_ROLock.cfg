SPECIFICATION Spec
CONSTANTS
  Thr = {1, 2, 3}
  MaxOps = 2
  MaxTok = 12
INVARIANT Exclusion
PROPERTY Progress
