----------------------------- MODULE MC_Syntax -----------------------------
(* The test trees of C15 (env CASES: ndjson, one tree per line, generated from the grammar with a
   seeded generator: every command kind, every option combination, the literal pool) are pushed
   through the specified printer:  one state per tree; the printed token sequence is emitted (CASE
   lines) for the conformance harness.  Checked on the whole set: the printer is injective -- two
   different trees never print to the same tokens, which is what makes `parse . print = id`
   satisfiable at all (e.g. an option that is not printed would identify two trees).            *)
EXTENDS Syntax, Json, IOUtils
Cases == ndJsonDeserialize(IOEnv.CASES)
VARIABLE i
Init == i \in 1 .. Len(Cases)
Next == UNCHANGED i
Spec == Init /\ [][Next]_i
Emit == PrintT(<<"CASE", i, ToJson(Tokens(Cases[i].ast))>>)
Toks == [k \in 1 .. Len(Cases) |-> Tokens(Cases[k].ast)]
Injective == \A j \in 1 .. Len(Cases) : (Toks[j] = Toks[i]) => (Cases[j].ast = Cases[i].ast)
WellFormed == LET t == Toks[i] IN
              /\ Len(t) >= 2 /\ t[1] = "(" /\ t[Len(t)] = ")"
              /\ Cardinality({k \in 1 .. Len(t) : t[k] = "("}) = Cardinality({k \in 1 .. Len(t) : t[k] = ")"})
=============================================================================
