------------------------------- MODULE ROLock -------------------------------
(* Design model of egglog-concurrency's ReadOptimizedLock (concurrency/src/lib.rs):
   an RCU token in an ArcSwap.  A token is ReadOk(trigger) or WriteOngoing(note):

     read():  g := token.load()                       RLoad   (the guard keeps the token alive)
              ReadOk       -> critical section        RCheck
              WriteOngoing -> drop g; wait(note); retry
     lock():  g := token.load()                       WLoad
              ReadOk(n)    -> CAS(token: g -> new WriteOngoing)   WCas  (failure: retry)
                              drop (g, prev); rcu; wait(n)         WDrop ; WWaitReaders
                              n fires when the old ReadOk token is DROPPED, i.e. when it is
                              no longer current and the last guard on it is gone
              WriteOngoing -> drop g; wait(note); retry
     drop(writer): token.store(new ReadOk) ; note.notify()         WRelease1 ; WRelease2

   Tokens are numbered 0, 1, 2, ...; refs[k] counts the guards on token k.       *)
EXTENDS Integers, FiniteSets, TLC

CONSTANTS Thr,        \* set of threads
          MaxOps,     \* lock acquisitions per thread
          MaxTok      \* bound on token numbers

Tok == 0 .. MaxTok

VARIABLES tok,      \* current token
          kind,     \* token -> "R" | "W" | "none"
          refs,     \* token -> number of guards
          fired,    \* token -> its notification has fired
          ntok,     \* next unused token number
          pc, g, ops, role

vars == <<tok, kind, refs, fired, ntok, pc, g, ops, role>>

Init ==
  /\ tok = 0 /\ kind = [k \in Tok |-> IF k = 0 THEN "R" ELSE "none"]
  /\ refs = [k \in Tok |-> 0] /\ fired = [k \in Tok |-> FALSE] /\ ntok = 1
  /\ pc = [t \in Thr |-> "idle"] /\ g = [t \in Thr |-> 0] /\ ops = [t \in Thr |-> 0]
  /\ role = [t \in Thr |-> "none"]

\* dropping one guard on token k: a ReadOk token that is no longer current and has
\* no guard left is destroyed, which fires its trigger
DropGuard(k, n) ==
  /\ refs' = [refs EXCEPT ![k] = @ - n]
  /\ fired' = IF kind[k] = "R" /\ tok' # k /\ refs[k] - n = 0 THEN [fired EXCEPT ![k] = TRUE] ELSE fired

Start(t, r) ==
  /\ pc[t] = "idle" /\ ops[t] < MaxOps
  /\ role' = [role EXCEPT ![t] = r]
  /\ pc' = [pc EXCEPT ![t] = IF r = "reader" THEN "rload" ELSE "wload"]
  /\ ops' = [ops EXCEPT ![t] = @ + 1]
  /\ UNCHANGED <<tok, kind, refs, fired, ntok, g>>

Load(t, from, to) ==
  /\ pc[t] = from
  /\ g' = [g EXCEPT ![t] = tok]
  /\ refs' = [refs EXCEPT ![tok] = @ + 1]
  /\ pc' = [pc EXCEPT ![t] = to]
  /\ UNCHANGED <<tok, kind, fired, ntok, ops, role>>

RLoad(t) == Load(t, "rload", "rcheck")
WLoad(t) == Load(t, "wload", "wcheck")

\* the token seen is WriteOngoing: drop the guard and wait for that writer
SeeWriter(t, from, to) ==
  /\ pc[t] = from /\ kind[g[t]] = "W"
  /\ tok' = tok /\ DropGuard(g[t], 1)
  /\ pc' = [pc EXCEPT ![t] = to]
  /\ UNCHANGED <<kind, ntok, g, ops, role>>

AwaitWriter(t, from, to) ==
  /\ pc[t] = from /\ fired[g[t]]
  /\ pc' = [pc EXCEPT ![t] = to]
  /\ UNCHANGED <<tok, kind, refs, fired, ntok, g, ops, role>>

RCheck(t) ==
  \/ /\ pc[t] = "rcheck" /\ kind[g[t]] = "R"
     /\ pc' = [pc EXCEPT ![t] = "rcs"]
     /\ UNCHANGED <<tok, kind, refs, fired, ntok, g, ops, role>>
  \/ SeeWriter(t, "rcheck", "rwait")
RWait(t) == AwaitWriter(t, "rwait", "rload")

\* the reader leaves its critical section: the guard is dropped
RExit(t) ==
  /\ pc[t] = "rcs"
  /\ tok' = tok /\ DropGuard(g[t], 1)
  /\ pc' = [pc EXCEPT ![t] = "idle"]
  /\ UNCHANGED <<kind, ntok, g, ops, role>>

WCheck(t) ==
  \/ /\ pc[t] = "wcheck" /\ kind[g[t]] = "R"
     /\ pc' = [pc EXCEPT ![t] = "wcas"]
     /\ UNCHANGED <<tok, kind, refs, fired, ntok, g, ops, role>>
  \/ SeeWriter(t, "wcheck", "wwait")
WWait(t) == AwaitWriter(t, "wwait", "wload")

\* compare_and_swap(&guard, WriteOngoing): on success the writer owns the lock as soon
\* as the readers of the old token are gone; `prev` is a second guard on the old token
WCas(t) ==
  /\ pc[t] = "wcas"
  /\ IF tok = g[t]
     THEN /\ ntok <= MaxTok
          /\ tok' = ntok /\ ntok' = ntok + 1
          /\ kind' = [kind EXCEPT ![ntok] = "W"]
          /\ refs' = [refs EXCEPT ![g[t]] = @ + 1]
          /\ pc' = [pc EXCEPT ![t] = "wdrop"]
          /\ UNCHANGED fired
     ELSE /\ tok' = tok /\ DropGuard(g[t], 1)          \* lost the race: retry
          /\ pc' = [pc EXCEPT ![t] = "wload"]
          /\ UNCHANGED <<ntok, kind>>
  /\ UNCHANGED <<g, ops, role>>

WDrop(t) ==
  /\ pc[t] = "wdrop"
  /\ tok' = tok /\ DropGuard(g[t], 2)
  /\ pc' = [pc EXCEPT ![t] = "wreaders"]
  /\ UNCHANGED <<kind, ntok, g, ops, role>>

\* readers_done.wait()
WWaitReaders(t) ==
  /\ pc[t] = "wreaders" /\ fired[g[t]]
  /\ pc' = [pc EXCEPT ![t] = "wcs"]
  /\ UNCHANGED <<tok, kind, refs, fired, ntok, g, ops, role>>

\* MutexWriter::drop, first half: publish a fresh ReadOk token
WRelease1(t) ==
  /\ pc[t] = "wcs" /\ ntok <= MaxTok
  /\ g' = [g EXCEPT ![t] = tok]                \* remember the WriteOngoing token (its note = unblock)
  /\ tok' = ntok /\ ntok' = ntok + 1
  /\ kind' = [kind EXCEPT ![ntok] = "R"]
  /\ pc' = [pc EXCEPT ![t] = "wrel2"]
  /\ UNCHANGED <<refs, fired, ops, role>>

\* second half: unblock.notify()
WRelease2(t) ==
  /\ pc[t] = "wrel2"
  /\ fired' = [fired EXCEPT ![g[t]] = TRUE]
  /\ pc' = [pc EXCEPT ![t] = "idle"]
  /\ UNCHANGED <<tok, kind, refs, ntok, g, ops, role>>

Step(t) ==
  \/ Start(t, "reader") \/ Start(t, "writer")
  \/ RLoad(t) \/ RCheck(t) \/ RWait(t) \/ RExit(t)
  \/ WLoad(t) \/ WCheck(t) \/ WWait(t) \/ WCas(t) \/ WDrop(t) \/ WWaitReaders(t) \/ WRelease1(t) \/ WRelease2(t)

AllDone == \A t \in Thr : pc[t] = "idle" /\ ops[t] = MaxOps
Next == (\E t \in Thr : Step(t)) \/ (AllDone /\ UNCHANGED vars)
Spec == Init /\ [][Next]_vars /\ \A t \in Thr : WF_vars(Step(t))

\* ---------------------------------------------------------------- properties
Readers == {t \in Thr : pc[t] = "rcs"}
Writers == {t \in Thr : pc[t] = "wcs"}
NoReaderDuringWrite == Writers = {} \/ Readers = {}
NoTwoWriters == Cardinality(Writers) <= 1
RefsOK == \A k \in Tok : refs[k] >= 0
\* a thread waits only on a notification that somebody will fire
Exclusion == NoReaderDuringWrite /\ NoTwoWriters /\ RefsOK
\* liveness: every acquisition completes
Progress == \A t \in Thr : (pc[t] # "idle") ~> (pc[t] = "idle")
=============================================================================
