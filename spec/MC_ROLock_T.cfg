SPECIFICATION Spec
CONSTANTS
  Thr = {1, 2, 3, 4}
  MaxOps = 2
  MaxTok = 16
INVARIANT Exclusion
PROPERTY Progress
