SPECIFICATION Spec
CONSTANTS
  Thr = {1, 2, 3, 4}
  MaxOps = 1
  MaxTok = 8
INVARIANT Exclusion
PROPERTY Progress
