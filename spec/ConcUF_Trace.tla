---------------------------- MODULE ConcUF_Trace ----------------------------
(* Trace validation of the concurrent union-find (C17): every scenario recorded
   from egglog_union_find::concurrent::UnionFind is a set of operations with
   call / return positions in one totally ordered log.  At the end of the
   scenario the history must be linearizable with respect to the sequential
   union-find (UFLin: the operators the design model ConcUF.tla is checked
   against), and the final representatives must be the least ids of the classes
   the unions generate.                                                          *)
EXTENDS UFLin, Json, IOUtils, TLC

Rec == ndJsonDeserialize(IOEnv.TRACE)
VARIABLES l, decl, calls, rets
vars == <<l, decl, calls, rets>>

Bad(code) == PrintT(<<"BAD", l, code>>)
Ev == Rec[l]
Is(e) == l <= Len(Rec) /\ Rec[l].e = e /\ l' = l + 1
EmptyFn == [x \in {} |-> 0]

UBegin == Is("u_begin") /\ decl' = Ev /\ calls' = EmptyFn /\ rets' = EmptyFn
UCall == Is("u_call") /\ calls' = (Ev.id :> l) @@ calls /\ UNCHANGED <<decl, rets>>
URet == Is("u_ret") /\ rets' = (Ev.id :> [at |-> l, res |-> <<Ev.res[1], Ev.res[2]>>]) @@ rets /\ UNCHANGED <<decl, calls>>

Ops ==
  {[id |-> decl.ops[i].id, op |-> decl.ops[i].op, a |-> decl.ops[i].a, b |-> decl.ops[i].b,
    res |-> rets[decl.ops[i].id].res, call |-> calls[decl.ops[i].id], ret |-> rets[decl.ops[i].id].at] :
     i \in {j \in 1 .. Len(decl.ops) : decl.ops[j].id \in DOMAIN rets /\ decl.ops[j].id \in DOMAIN calls}}

UEnd ==
  /\ Is("u_end")
  /\ LET ids == 0 .. (decl.n - 1)
         ops == Ops
         fin == FinalRep(ops, ids)
     IN /\ (Cardinality(ops) # Len(decl.ops)) => Bad("an-operation-did-not-return")
        /\ (\E i \in ids : Ev.reps[i + 1] # fin[i]) => Bad("final-representatives-are-not-the-least-ids-of-the-classes")
        /\ (~RelaxedLinearizable(ops, ids)) => Bad("history-not-linearizable")
        /\ (RelaxedLinearizable(ops, ids) /\ ~Linearizable(ops, ids)) => Bad("union-returned-a-parent-that-was-no-longer-a-root")
  /\ UNCHANGED <<decl, calls, rets>>

TraceInit == l = 1 /\ decl = [n |-> 0, ops |-> <<>>] /\ calls = EmptyFn /\ rets = EmptyFn
TraceNext == UBegin \/ UCall \/ URet \/ UEnd
TraceSpec == TraceInit /\ [][TraceNext]_vars
=============================================================================
