SPECIFICATION Spec
CONSTANTS
  Pushers = {1, 2, 3}
  Readers = {4, 5}
  Cap0 = 1
  MaxPush = 2
  MaxRead = 2
INVARIANT VecSafe
PROPERTY Progress
