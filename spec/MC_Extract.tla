----------------------------- MODULE MC_Extract -----------------------------
(* Exhaustive check of the extraction algorithm (Extract!BF) against the
   reference least fixpoint on ALL small e-graphs: every sequence (= scan order)
   of at most MaxRows rows with distinct keys over NClasses e-classes and the
   signature below (nullary / unary / binary constructors, zero-cost
   constructors, and -- when Saturating -- unary and binary constructors of cost Huge = i64::MAX, so that sums saturate),
   with at most one subsumed row.  Each e-graph is one state; a REPLAY line per
   e-graph feeds the conformance harness.                            *)
EXTENDS Extract, Json

CONSTANTS NClasses, MaxRows, Saturating, EmitReplay

VARIABLE g            \* the e-graph: a sequence of rows in scan order

F(name, ins, cost) == [name |-> name, kind |-> "con", ins |-> ins, out |-> "E", merge |-> "", cost |-> cost]
Sig == [funcs |-> <<F("K1", <<>>, 1), F("K0", <<>>, 0), F("U", <<"E">>, 1), F("Z", <<"E">>, 0),
                    F("B", <<"E", "E">>, 1), F("S", <<"E">>, Huge), F("P", <<"E", "E">>, Huge)>>,
        rules |-> <<>>, rsets |-> <<>>]
NF == IF Saturating THEN 7 ELSE 5
FSet == IF Saturating THEN {1, 2, 6, 7} ELSE 1 .. 5     \* saturating runs: K1, K0, S, P only

Classes == {<<-2, n>> : n \in 1 .. NClasses}
Keys == UNION {{<<f, a>> : a \in [1 .. Len(Sig.funcs[f].ins) -> Classes]} : f \in FSet}

\* e-graphs are grown one row at a time (so that TLC's workers share the enumeration);
\* every prefix is itself an e-graph of the bound and is checked
Init == /\ prog = Sig /\ rows = {} /\ active = {} /\ stack = <<>> /\ res = "ok" /\ g = <<>>
\* symmetry breaking: classes are interchangeable, so only e-graphs whose class numbers appear in
\* order of first occurrence (scanning each row's arguments, then its output) are generated
RECURSIVE InOrder(_, _, _)
InOrder(ids, i, mx) == IF i > Len(ids) THEN TRUE
                       ELSE IF ids[i][2] > mx + 1 THEN FALSE
                       ELSE InOrder(ids, i + 1, IF ids[i][2] > mx THEN ids[i][2] ELSE mx)
UsedMax == LET S == {0} \cup UNION {{g[i].o[2]} \cup {g[i].a[j][2] : j \in 1 .. Len(g[i].a)} : i \in 1 .. Len(g)}
           IN CHOOSE m \in S : \A x \in S : x <= m
AddRow ==
  /\ Len(g) < MaxRows
  /\ \E k \in Keys \ {<<g[i].f, g[i].a>> : i \in 1 .. Len(g)} : \E o \in Classes :
       /\ InOrder(Append(k[2], o), 1, UsedMax)
       /\
         \E sb \in (IF Saturating \/ (\E i \in 1 .. Len(g) : g[i].s) THEN {FALSE} ELSE BOOLEAN) :
           g' = Append(g, Row(k[1], k[2], o, sb))
  /\ UNCHANGED vars
Next == AddRow
Spec == Init /\ [][Next]_<<vars, g>>

X == BF(g)
CostIsMinInv == CostIsMin(g, X)
HasCostHasParentInv == HasCostHasParent(g, X)
ParentsWellFoundedInv == ParentsWellFounded(g, X)
TermCostIsCostInv == TermCostIsCost(g, X)

\* one REPLAY line per e-graph (only the interesting ones: some class has two usable rows or a cycle)
Interesting == \E i, j \in 1 .. Len(g) : i # j /\ g[i].o = g[j].o
Replay == (EmitReplay /\ Interesting) => PrintT(<<"REPLAY", ToJson(g)>>)
\* with saturating costs: every e-graph on which some class has a cost but no parent edge is printed
\* (and replayed on the real extractor) instead of stopping at the first one
NoParentReplay == (~HasCostHasParent(g, X)) => PrintT(<<"NOPARENT", ToJson(g)>>)
=============================================================================
