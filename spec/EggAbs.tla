------------------------------ MODULE EggAbs ------------------------------
(* Abstract semantics of an egglog session.

   The database is a finite set of rows over CANONICAL GROUND TERMS: every
   e-class is named by its least ground term (shortest, then lexicographically
   least in prefix notation), so equality of terms is, by construction, the
   congruence closure of the unions performed.  Function tables hold
   lattice-merged values, every row carries a subsumed flag.  Every command is
   one deterministic action.  Programs (functions, rules, rulesets), commands,
   schedules are DATA (records as produced by the Json module), so the same
   operators serve exhaustive model checking of a fixed program (MC_EggAbs) and
   validation of traces recorded from the real engine (EggAbs_Trace).

   Values are flat sequences of integers (TLC cannot compare values of different
   kinds):   <<0, n>>            an i64 / bool (0,1) / unit (0)
             <<-1, n1, .., nk>>  a Set of i64, ascending
             <<-2, id>>          a raw e-class id (only inside AbsOf)
             <<-3, k, ...>>      a container of e-classes (see Containers below)
             <<f, args...>>      the application of function number f >= 1 to
                                 the (flattened) names of its arguments.        *)
EXTENDS Integers, Sequences, FiniteSets, TLC

VARIABLES prog,     \* [funcs, rules, rsets]                        (declarations)
          rows,     \* set of [f, a, o, s]                          (the database)
          active,   \* set of indices of rules declared so far
          stack,    \* sequence of pushed <<rows, active>>
          res       \* outcome of the last command: "ok" | "err"

vars == <<prog, rows, active, stack, res>>

Has(r, fld) == fld \in DOMAIN r
BaseSorts == {"i64", "bool", "Unit", "SetI"}
\* container sorts over e-classes (C14): prog.sorts = << [name, kind, elems] .. >> with
\* kind 1 = Vec, 2 = Set, 3 = MultiSet, 4 = Pair, 5 = Map (elems = <<key sort, value sort>>)
ContSorts == IF Has(prog, "sorts") THEN {prog.sorts[i].name : i \in 1 .. Len(prog.sorts)} ELSE {}
IsContSort(s) == s \in ContSorts
SortRec(s) == CHOOSE q \in {prog.sorts[i] : i \in 1 .. Len(prog.sorts)} : q.name = s
EqSort(s) == s \notin BaseSorts /\ ~IsContSort(s)
Fn(f) == prog.funcs[f]
IsCon(f) == Fn(f).kind = "con"

IntV(n) == <<0, n>>
Poison == <<-9>>                       \* result of an illegal (:no-merge) merge
WildName == <<-8>>                     \* a class that has lost its last finite term

\* ------------------------------------------------------------- term order
LexLess(a, b) == \E i \in 1 .. Len(a) : a[i] < b[i] /\ \A j \in 1 .. (i - 1) : a[j] = b[j]
Less(a, b) == Len(a) < Len(b) \/ (Len(a) = Len(b) /\ LexLess(a, b))
MinT(S) == CHOOSE x \in S : \A y \in S : x = y \/ Less(x, y)

RECURSIVE FlatCat(_)
FlatCat(ss) == IF ss = <<>> THEN <<>> ELSE Head(ss) \o FlatCat(Tail(ss))

\* ascending sequence of a finite set of integers
RECURSIVE SortedSeq(_)
SortedSeq(S) == IF S = {} THEN <<>>
                ELSE LET m == CHOOSE x \in S : \A y \in S : x <= y IN <<m>> \o SortedSeq(S \ {m})
SetV(S) == <<-1>> \o SortedSeq(S)
ElemsOf(v) == {v[i] : i \in 2 .. Len(v)}

\* ------------------------------------------------------------- container values
\* <<-3, kind, n, len1, e1.., len2, e2..>> : elements are abstract values (class names, base
\* values, nested containers), each prefixed by its length so that the value can be decoded
RECURSIVE DecodeFrom(_, _, _)
DecodeFrom(v, pos, n) == IF n = 0 THEN <<>>
                         ELSE <<SubSeq(v, pos + 1, pos + v[pos])>> \o DecodeFrom(v, pos + v[pos] + 1, n - 1)
Decode(v) == DecodeFrom(v, 4, v[3])
Encode(k, es) == <<-3, k, Len(es)>> \o FlatCat([i \in 1 .. Len(es) |-> <<Len(es[i])>> \o es[i]])

RECURSIVE InsertSorted(_, _)
InsertSorted(x, seq) == IF seq = <<>> THEN <<x>>
                        ELSE IF x = Head(seq) \/ Less(x, Head(seq)) THEN <<x>> \o seq
                        ELSE <<Head(seq)>> \o InsertSorted(x, Tail(seq))
RECURSIVE SortVals(_)
SortVals(seq) == IF seq = <<>> THEN <<>> ELSE InsertSorted(Head(seq), SortVals(Tail(seq)))
RECURSIVE Dedup(_)
Dedup(seq) == IF Len(seq) < 2 THEN seq
              ELSE IF seq[1] = seq[2] THEN Dedup(Tail(seq)) ELSE <<seq[1]>> \o Dedup(Tail(seq))
\* canonical element sequence of a container kind
NormC(k, es) == IF k = 2 THEN Dedup(SortVals(es)) ELSE IF k = 3 THEN SortVals(es) ELSE es
MkCont(k, es) == Encode(k, NormC(k, es))

Ap(m, v) == IF v \in DOMAIN m THEN m[v] ELSE v
ElemSort(rec, i) == rec.elems[((i - 1) % Len(rec.elems)) + 1]

\* apply the class-id mapping m inside a value of sort srt (and re-normalise containers)
RECURSIVE MapVal(_, _, _)
MapVal(srt, v, m) ==
  IF IsContSort(srt) THEN
    LET rec == SortRec(srt)
        es == Decode(v)
    IN MkCont(rec.kind, [i \in 1 .. Len(es) |-> MapVal(ElemSort(rec, i), es[i], m)])
  ELSE IF EqSort(srt) THEN Ap(m, v)
  ELSE v

\* the class ids occurring in a value of sort srt
RECURSIVE IdsIn(_, _)
IdsIn(srt, v) ==
  IF IsContSort(srt) THEN
    LET rec == SortRec(srt)
        es == Decode(v)
    IN UNION {IdsIn(ElemSort(rec, i), es[i]) : i \in 1 .. Len(es)}
  ELSE IF EqSort(srt) THEN {v}
  ELSE {}

\* ------------------------------------------------------------- merges
MergeV(f, old, new) ==
  LET m == Fn(f).merge IN
  IF old = new THEN old
  ELSE IF m = "min" THEN (IF new[2] < old[2] THEN new ELSE old)
  ELSE IF m = "max" THEN (IF new[2] > old[2] THEN new ELSE old)
  ELSE IF m = "or"  THEN IntV(IF old[2] = 1 \/ new[2] = 1 THEN 1 ELSE 0)
  ELSE IF m = "and" THEN IntV(IF old[2] = 1 /\ new[2] = 1 THEN 1 ELSE 0)
  ELSE IF m = "union" THEN SetV(ElemsOf(old) \cup ElemsOf(new))
  ELSE IF m = "inter" THEN SetV(ElemsOf(old) \cap ElemsOf(new))
  ELSE IF m = "old" THEN old
  ELSE IF m = "new" THEN new
  ELSE Poison

\* ------------------------------------------------------------- rows
Row(f, a, o, s) == [f |-> f, a |-> a, o |-> o, s |-> s]
RowsAt(R, f, a) == {r \in R : r.f = f /\ r.a = a}
ConRows(R) == {r \in R : IsCon(r.f)}

EqArg(f, i) == EqSort(Fn(f).ins[i])
EqOut(f) == EqSort(Fn(f).out)

SubV(v, drop, keep) == IF v = drop THEN keep ELSE v
\* positions whose values can mention class ids: eq-sorts and containers
IdArg(f, i) == EqArg(f, i) \/ IsContSort(Fn(f).ins[i])
IdOut(f) == EqOut(f) \/ IsContSort(Fn(f).out)
MapRow(r, m) ==
  [r EXCEPT !.a = [i \in 1 .. Len(r.a) |-> IF IdArg(r.f, i) THEN MapVal(Fn(r.f).ins[i], r.a[i], m) ELSE r.a[i]],
            !.o = IF IdOut(r.f) THEN MapVal(Fn(r.f).out, r.o, m) ELSE r.o]
SubstRow(r, drop, keep) == MapRow(r, drop :> keep)

\* Congruence closure + functional-dependency repair over opaque class ids.
\* pend: pairs of ids still to be unioned.
RECURSIVE Close(_, _)
Close(R, pend) ==
  IF pend # {} THEN
    LET p == CHOOSE q \in pend : TRUE IN
    IF p[1] = p[2] THEN Close(R, pend \ {p})
    ELSE LET keep == MinT({p[1], p[2]})
             drop == IF keep = p[1] THEN p[2] ELSE p[1]
         IN Close({SubstRow(r, drop, keep) : r \in R},
                  {<<SubV(q[1], drop, keep), SubV(q[2], drop, keep)>> : q \in pend \ {p}})
  ELSE
    LET confl == {c \in R \X R : c[1].f = c[2].f /\ c[1].a = c[2].a /\ c[1] # c[2]} IN
    IF confl = {} THEN R
    ELSE LET c == CHOOSE q \in confl : TRUE
             r1 == c[1]
             r2 == c[2]
             s12 == r1.s \/ r2.s
         IN IF EqOut(r1.f)
            THEN Close((R \ {r1, r2}) \cup {[r1 EXCEPT !.s = s12]},
                       IF r1.o = r2.o THEN {} ELSE {<<r1.o, r2.o>>})
            ELSE Close((R \ {r1, r2}) \cup {[r1 EXCEPT !.o = MergeV(r1.f, r1.o, r2.o), !.s = s12]}, {})

Poisoned(R) == \E r \in R : r.o = Poison

\* ------------------------------------------------------------- least-term naming
ClassIds(R) == UNION {IdsIn(Fn(r.f).out, r.o) : r \in R}
              \cup UNION {UNION {IdsIn(Fn(r.f).ins[i], r.a[i]) : i \in 1 .. Len(r.a)} : r \in R}

AllNamed(r, nm) == \A i \in 1 .. Len(r.a) : \A id \in IdsIn(Fn(r.f).ins[i], r.a[i]) : nm[id] # <<>>
TermOf(r, nm) == <<r.f>> \o FlatCat([i \in 1 .. Len(r.a) |-> MapVal(Fn(r.f).ins[i], r.a[i], nm)])

RECURSIVE LeastFix(_, _)
LeastFix(R, nm) ==
  LET cand(id) == {TermOf(r, nm) : r \in {q \in ConRows(R) : q.o = id /\ AllNamed(q, nm)}}
      nm2 == [id \in DOMAIN nm |->
                LET c == cand(id) \cup (IF nm[id] = <<>> THEN {} ELSE {nm[id]}) IN
                IF c = {} THEN <<>> ELSE MinT(c)]
  IN IF nm2 = nm THEN nm ELSE LeastFix(R, nm2)

LeastNames(R) == LeastFix(R, [id \in ClassIds(R) |-> <<>>])

\* rows renamed by least term; a class without a finite term keeps WildName
Canonize(R) ==
  LET nm == LeastNames(R)
      nmw == [id \in DOMAIN nm |-> IF nm[id] = <<>> THEN WildName ELSE nm[id]]
  IN {MapRow(r, nmw) : r \in R}

IsWild(R) == WildName \in ClassIds(R)

Normalize(R, pairs) == Canonize(Close(R, pairs))

\* ------------------------------------------------------------- ground terms (commands)
\* term: [i |-> n] | [b |-> 0/1] | [set |-> <<n..>>] | [f |-> idx, a |-> <<term..>>]
\* Evaluation WITH creation (actions): threads the row set, returns <<R', value>>.
RECURSIVE EvalG(_, _), EvalGArgs(_, _, _, _)
EvalG(R, t) ==
  IF Has(t, "i") THEN <<R, IntV(t.i)>>
  ELSE IF Has(t, "set") THEN <<R, SetV({t.set[k] : k \in 1 .. Len(t.set)})>>
  ELSE IF Has(t, "c") THEN LET ec == EvalGArgs(R, t.a, 1, <<>>) IN <<ec[1], MkCont(SortRec(t.c).kind, ec[2])>>
  ELSE LET ea == EvalGArgs(R, t.a, 1, <<>>)
           R1 == ea[1]
           as == ea[2]
           hit == RowsAt(R1, t.f, as)
       IN IF hit # {} THEN <<R1, (CHOOSE r \in hit : TRUE).o>>
          ELSE LET nm == <<t.f>> \o FlatCat(as) IN <<R1 \cup {Row(t.f, as, nm, FALSE)}, nm>>
EvalGArgs(R, ts, k, acc) ==
  IF k > Len(ts) THEN <<R, acc>>
  ELSE LET e == EvalG(R, ts[k]) IN EvalGArgs(e[1], ts, k + 1, Append(acc, e[2]))

\* Evaluation WITHOUT creation (queries): value or <<>> when some row is missing.
RECURSIVE LookG(_, _)
LookG(R, t) ==
  IF Has(t, "i") THEN IntV(t.i)
  ELSE IF Has(t, "set") THEN SetV({t.set[k] : k \in 1 .. Len(t.set)})
  ELSE LET as == [k \in 1 .. Len(t.a) |-> LookG(R, t.a[k])] IN
       IF \E k \in 1 .. Len(as) : as[k] = <<>> THEN <<>>
       ELSE IF Has(t, "c") THEN MkCont(SortRec(t.c).kind, as)
       ELSE LET hit == RowsAt(R, t.f, as) IN
            IF hit = {} THEN <<>> ELSE (CHOOSE r \in hit : TRUE).o

\* ------------------------------------------------------------- queries
\* spec: [v |-> n] variable | [i |-> n] literal | [w |-> 1] wildcard
\* atom: [k |-> "tab", f, a, o] | [k |-> "cmp", op, l, r]
RECURSIVE Unify(_, _, _, _)
Unify(specs, vals, i, s) ==
  IF i > Len(specs) THEN {s}
  ELSE LET sp == specs[i] IN
       IF Has(sp, "w") THEN Unify(specs, vals, i + 1, s)
       ELSE IF Has(sp, "i") THEN (IF vals[i] = IntV(sp.i) THEN Unify(specs, vals, i + 1, s) ELSE {})
       ELSE IF sp.v \in DOMAIN s THEN (IF s[sp.v] = vals[i] THEN Unify(specs, vals, i + 1, s) ELSE {})
       ELSE Unify(specs, vals, i + 1, s @@ (sp.v :> vals[i]))

SpecVal(sp, s) == IF Has(sp, "i") THEN IntV(sp.i) ELSE s[sp.v]

CmpHolds(at, s) ==
  LET l == SpecVal(at.l, s)
      r == SpecVal(at.r, s)
  IN IF at.op = "neq" THEN l # r
     ELSE IF at.op = "eq" THEN l = r
     ELSE IF at.op = "lt" THEN l[2] < r[2]
     ELSE IF at.op = "le" THEN l[2] <= r[2]
     ELSE FALSE

Extend(R, at, s, inclSub) ==
  IF at.k = "mk" THEN    \* o = (vec-of a..) etc.: a container built from bound values
    Unify(<<at.o>>, <<MkCont(SortRec(at.c).kind, [i \in 1 .. Len(at.a) |-> SpecVal(at.a[i], s)])>>, 1, s)
  ELSE IF at.k = "tab" THEN
    UNION {Unify(Append(at.a, at.o), Append(r.a, r.o), 1, s) :
             r \in {q \in R : q.f = at.f /\ (inclSub \/ ~q.s)}}
  ELSE IF CmpHolds(at, s) THEN {s} ELSE {}

EmptySub == [x \in {} |-> <<>>]

RECURSIVE Join(_, _, _, _, _)
Join(R, body, k, subs, inclSub) ==
  IF k > Len(body) \/ subs = {} THEN subs
  ELSE Join(R, body, k + 1, UNION {Extend(R, body[k], s, inclSub) : s \in subs}, inclSub)

Matches(R, body, inclSub) == Join(R, body, 1, {EmptySub}, inclSub)

\* ------------------------------------------------------------- rule heads
\* hterm: [v |-> n] | [i |-> n] | [f, a] | [p |-> "+"|"-"|"*", a]
\* acc: [new, sets, unions, subs, dels, panic]
EmptyAcc == [new |-> {}, sets |-> {}, unions |-> {}, subs |-> {}, dels |-> {}, panic |-> FALSE]

RECURSIVE EvalH(_, _, _, _), EvalHArgs(_, _, _, _, _, _)
\* returns <<new', value>>; lookups consult R and the rows created so far
EvalH(R, new, t, s) ==
  IF Has(t, "v") THEN <<new, s[t.v]>>
  ELSE IF Has(t, "i") THEN <<new, IntV(t.i)>>
  ELSE LET ea == EvalHArgs(R, new, t.a, s, 1, <<>>)
           n1 == ea[1]
           as == ea[2]
       IN IF Has(t, "c") THEN <<n1, MkCont(SortRec(t.c).kind, as)>>
          ELSE IF Has(t, "p") THEN
            <<n1, IntV(IF t.p = "+" THEN as[1][2] + as[2][2]
                       ELSE IF t.p = "-" THEN as[1][2] - as[2][2]
                       ELSE IF t.p = "*" THEN as[1][2] * as[2][2]
                       ELSE IF t.p = "min" THEN (IF as[1][2] < as[2][2] THEN as[1][2] ELSE as[2][2])
                       ELSE (IF as[1][2] > as[2][2] THEN as[1][2] ELSE as[2][2]))>>
          ELSE LET hit == RowsAt(R \cup n1, t.f, as) IN
               IF hit # {} THEN <<n1, (CHOOSE r \in hit : TRUE).o>>
               ELSE LET nm == <<t.f>> \o FlatCat(as) IN <<n1 \cup {Row(t.f, as, nm, FALSE)}, nm>>
EvalHArgs(R, new, ts, s, k, acc) ==
  IF k > Len(ts) THEN <<new, acc>>
  ELSE LET e == EvalH(R, new, ts[k], s) IN EvalHArgs(R, e[1], ts, s, k + 1, Append(acc, e[2]))

RECURSIVE ExecHead(_, _, _, _, _)
ExecHead(R, head, k, s, acc) ==
  IF k > Len(head) THEN acc
  ELSE LET h == head[k] IN
    IF h.k = "panic" THEN [acc EXCEPT !.panic = TRUE]
    ELSE IF h.k = "let" THEN
      LET e == EvalH(R, acc.new, h.t, s) IN ExecHead(R, head, k + 1, s @@ (h.v :> e[2]), [acc EXCEPT !.new = e[1]])
    ELSE IF h.k = "ins" THEN
      LET e == EvalH(R, acc.new, h.t, s) IN ExecHead(R, head, k + 1, s, [acc EXCEPT !.new = e[1]])
    ELSE IF h.k = "union" THEN
      LET e1 == EvalH(R, acc.new, h.l, s)
          e2 == EvalH(R, e1[1], h.r, s)
      IN ExecHead(R, head, k + 1, s, [acc EXCEPT !.new = e2[1], !.unions = @ \cup {<<e1[2], e2[2]>>}])
    ELSE LET ea == EvalHArgs(R, acc.new, h.a, s, 1, <<>>) IN
      IF h.k = "set" THEN
        LET ev == EvalH(R, ea[1], h.t, s) IN
        ExecHead(R, head, k + 1, s, [acc EXCEPT !.new = ev[1], !.sets = @ \cup {<<h.f, ea[2], ev[2]>>}])
      ELSE IF h.k = "subsume" THEN
        ExecHead(R, head, k + 1, s, [acc EXCEPT !.new = ea[1], !.subs = @ \cup {<<h.f, ea[2]>>}])
      ELSE \* delete
        ExecHead(R, head, k + 1, s, [acc EXCEPT !.new = ea[1], !.dels = @ \cup {<<h.f, ea[2]>>}])

\* fold over a set of <<rule index, substitution>>
RECURSIVE ExecAll(_, _, _)
ExecAll(R, todo, acc) ==
  IF todo = {} THEN acc
  ELSE LET m == CHOOSE q \in todo : TRUE IN
       ExecAll(R, todo \ {m}, ExecHead(R, prog.rules[m[1]].head, 1, m[2], acc))

\* fold the pending `set`s into the rows (ACI merges: order irrelevant)
RECURSIVE ApplySets(_, _)
ApplySets(R, sets) ==
  IF sets = {} THEN R
  ELSE LET w == CHOOSE q \in sets : TRUE
           hit == RowsAt(R, w[1], w[2])
       IN IF hit = {} THEN ApplySets(R \cup {Row(w[1], w[2], w[3], FALSE)}, sets \ {w})
          ELSE LET r == CHOOSE q \in hit : TRUE IN
               ApplySets((R \ {r}) \cup {[r EXCEPT !.o = MergeV(w[1], r.o, w[3])]}, sets \ {w})

\* mark rows subsumed, creating them (as a fresh class named by the term) when absent
RECURSIVE ApplySubs(_, _)
ApplySubs(R, subs) ==
  IF subs = {} THEN R
  ELSE LET w == CHOOSE q \in subs : TRUE
           hit == RowsAt(R, w[1], w[2])
       IN IF hit = {} THEN ApplySubs(R \cup {Row(w[1], w[2], <<w[1]>> \o FlatCat(w[2]), TRUE)}, subs \ {w})
          ELSE ApplySubs((R \ hit) \cup {[r EXCEPT !.s = TRUE] : r \in hit}, subs \ {w})

\* removals first, then inserts / sets / subsumes, then unions + closure
ApplyAcc(R, acc) ==
  LET R1 == {r \in R : <<r.f, r.a>> \notin acc.dels}
      R2 == R1 \cup {n \in acc.new : RowsAt(R1, n.f, n.a) = {}}
      R3 == ApplySets(R2, acc.sets)
      R4 == ApplySubs(R3, acc.subs)
  IN Close(R4, acc.unions)

\* ------------------------------------------------------------- rulesets, one iteration
RsetRec(name) == CHOOSE q \in {prog.rsets[i] : i \in 1 .. Len(prog.rsets)} : q.name = name
RECURSIVE RulesOf(_, _)
RulesOf(name, act) ==
  LET rs == RsetRec(name) IN
  IF rs.kind = "comb" THEN UNION {RulesOf(rs.subs[i], act) : i \in 1 .. Len(rs.subs)}
  ELSE {r \in act : prog.rules[r].rs = name}

InclSub(r) == Has(prog.rules[r], "inclsub") /\ prog.rules[r].inclsub

\* RunReport.updated of one iteration, as the engine computes it: some staged
\* insertion changed a table (new key -- also a key removed earlier in the same
\* iteration --, a merge that changed the value, a subsume flag newly set) or the
\* union-find grew.  Removals alone do not count.
IterUpd(R, acc) ==
  LET R1 == {r \in R : <<r.f, r.a>> \notin acc.dels} IN
  \/ \E n \in acc.new : RowsAt(R1, n.f, n.a) = {}
  \/ \E w \in acc.sets : LET hit == RowsAt(R1, w[1], w[2]) IN
                           hit = {} \/ \E r \in hit : MergeV(w[1], r.o, w[3]) # r.o
  \/ \E w \in acc.subs : LET hit == RowsAt(R1 \cup acc.new, w[1], w[2]) IN
                           hit = {} \/ \E r \in hit : ~r.s
  \/ \E p \in acc.unions : p[1] # p[2]

\* result of one iteration: [rows, fail, upd]; all heads are evaluated against the pre-state
RunOnce(R, name, act) ==
  LET todo == UNION {{<<r, s>> : s \in Matches(R, prog.rules[r].body, InclSub(r))} : r \in RulesOf(name, act)}
      acc == ExecAll(R, todo, EmptyAcc)
      R5 == ApplyAcc(R, acc)
  IN IF acc.panic \/ Poisoned(R5) THEN [rows |-> R, fail |-> TRUE, upd |-> FALSE, n |-> Cardinality(todo)]
     ELSE [rows |-> Canonize(R5), fail |-> FALSE, upd |-> IterUpd(R, acc), n |-> Cardinality(todo)]

\* ------------------------------------------------------------- schedules
\* sched: [k |-> "run", rs, until (seq of atoms; <<>> = none)] | [k |-> "rep", n, b] | [k |-> "sat", b] | [k |-> "seq", b]
\* result: [rows, upd, stop, fail]    (RunReport.updated / can_stop)
CheckFacts(R, facts) == Matches(R, facts, TRUE) # {}

SatFuel == 40        \* a saturate that has not converged after this many rounds is reported as failed
RECURSIVE Sched(_, _, _), SchedSeq(_, _, _, _, _), SchedRep(_, _, _, _, _), SchedSat(_, _, _, _, _)
Sched(R, sc, act) ==
  IF sc.k = "run" THEN
    IF Len(sc.until) > 0 /\ CheckFacts(R, sc.until) THEN [rows |-> R, upd |-> FALSE, stop |-> TRUE, fail |-> FALSE]
    ELSE LET it == RunOnce(R, sc.rs, act) IN
         [rows |-> it.rows, upd |-> it.upd, stop |-> ~it.upd, fail |-> it.fail]
  ELSE IF sc.k = "seq" THEN SchedSeq(R, sc.b, 1, act, [rows |-> R, upd |-> FALSE, stop |-> TRUE, fail |-> FALSE])
  ELSE IF sc.k = "rep" THEN SchedRep(R, sc.b, sc.n, act, [rows |-> R, upd |-> FALSE, stop |-> TRUE, fail |-> FALSE])
  ELSE SchedSat(R, sc.b, act, [rows |-> R, upd |-> FALSE, stop |-> TRUE, fail |-> FALSE], SatFuel)

\* b is a sequence of schedules (an implicit seq)
SchedSeq(R, b, k, act, rep) ==
  IF k > Len(b) \/ rep.fail THEN rep
  ELSE LET x == Sched(rep.rows, b[k], act) IN
       SchedSeq(R, b, k + 1, act, [rows |-> x.rows, upd |-> rep.upd \/ x.upd, stop |-> rep.stop /\ x.stop, fail |-> x.fail])

Body(b) == [k |-> "seq", b |-> b]

SchedRep(R, b, n, act, rep) ==
  IF n = 0 \/ rep.fail THEN rep
  ELSE LET x == Sched(rep.rows, Body(b), act)
           rep2 == [rows |-> x.rows, upd |-> rep.upd \/ x.upd, stop |-> rep.stop /\ x.stop, fail |-> x.fail]
       IN IF x.stop THEN rep2 ELSE SchedRep(R, b, n - 1, act, rep2)

SchedSat(R, b, act, rep, fuel) ==
  IF rep.fail THEN rep
  ELSE IF fuel = 0 THEN [rep EXCEPT !.fail = TRUE]
  ELSE LET x == Sched(rep.rows, Body(b), act)
           rep2 == [rows |-> x.rows, upd |-> rep.upd \/ x.upd, stop |-> rep.stop /\ x.stop, fail |-> x.fail]
       IN IF ~x.upd THEN rep2 ELSE SchedSat(R, b, act, rep2, fuel - 1)

\* ------------------------------------------------------------- commands
\* Each returns [rows, ok].
CmdIns(R, c) == [rows |-> Canonize(EvalG(R, c.t)[1]), ok |-> TRUE]

\* bulk insertion (C02 data sets): c.items is a sequence of ground terms
RECURSIVE LoadAll(_, _, _)
LoadAll(R, items, k) == IF k > Len(items) THEN R ELSE LoadAll(EvalG(R, items[k])[1], items, k + 1)
CmdLoad(R, c) == [rows |-> Canonize(LoadAll(R, c.items, 1)), ok |-> TRUE]

CmdUnion(R, c) ==
  LET e1 == EvalG(R, c.a)
      e2 == EvalG(e1[1], c.b)
      R3 == Close(e2[1], {<<e1[2], e2[2]>>})
  IN IF Poisoned(R3) THEN [rows |-> R, ok |-> FALSE] ELSE [rows |-> Canonize(R3), ok |-> TRUE]

CmdSet(R, c) ==
  LET ea == EvalGArgs(R, c.a, 1, <<>>)
      ev == EvalG(ea[1], c.v)
      R3 == Close(ApplySets(ev[1], {<<c.f, ea[2], ev[2]>>}), {})
  IN IF Poisoned(R3) THEN [rows |-> R, ok |-> FALSE] ELSE [rows |-> Canonize(R3), ok |-> TRUE]

CmdSubsume(R, c) ==
  LET ea == EvalGArgs(R, c.a, 1, <<>>) IN
  [rows |-> Canonize(ApplySubs(ea[1], {<<c.f, ea[2]>>})), ok |-> TRUE]

CmdDelete(R, c) ==
  LET ea == EvalGArgs(R, c.a, 1, <<>>) IN
  [rows |-> Canonize({r \in ea[1] : ~(r.f = c.f /\ r.a = ea[2])}), ok |-> TRUE]

CmdRun(R, c, act) ==
  LET x == Sched(R, c.s, act) IN [rows |-> x.rows, ok |-> ~x.fail, upd |-> x.upd]

CmdCheck(R, c) == [rows |-> R, ok |-> CheckFacts(R, c.facts)]

\* ------------------------------------------------------------- state invariants of the abstract model
\* (they hold by construction; TLC re-checks them on every reachable state, and the
\*  trace module evaluates the same predicates on the state logged by the real engine)
Functional(R) == \A r1, r2 \in R : (r1.f = r2.f /\ r1.a = r2.a) => r1 = r2
NamesAreLeast(R) == Canonize(R) = R
Closed(R) == Close(R, {}) = R
Consistent(R) == Functional(R) /\ Closed(R) /\ NamesAreLeast(R) /\ ~Poisoned(R)
=============================================================================
