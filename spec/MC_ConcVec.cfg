SPECIFICATION Spec
CONSTANTS
  Pushers = {1, 2}
  Readers = {3}
  Cap0 = 1
  MaxPush = 2
  MaxRead = 2
INVARIANT VecSafe
PROPERTY Progress
