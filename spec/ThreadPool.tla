----------------------------- MODULE ThreadPool -----------------------------
(* Design model of egglog-concurrency's scoped thread pool
   (concurrency/src/threadpool/mod.rs), one action per atomic step of the code:

     Scope::spawn            = BodySpawnA (expect_one: CAS on the packed counter)
                               ; BodySpawnB (enqueue on the shared channel)
     the job wrapper         = IdlePop / HelpPop (a worker receives the job)
                               ; the callback's own steps (the Body.. actions)
                               ; RecPanic (record_panic) ; Complete (fetch_add)
                               ; Send (try_send on the bounded(1) done channel)
     ThreadPoolState::scope  = BodyOpen (Scope::new, root callback on the caller's stack)
                               ; Complete / Send for the root ; Wait
     wait_for_scope_completion:
        non-worker caller    = Block (recv on done)
        worker, depth < Max  = HelpDone (done.try_recv / select) | HelpPop (receiver.try_recv / select)
        worker, depth = Max  = BackupSpawn ; BBlock ; BJoin (shutdown + join of the backup worker)
     return of scope()       = Ret (take_panic; resume_unwind into the enclosing callback)

   Threads: 0 is the caller (not a pool thread), 1..W the primary workers,
   W+1..W+MaxBackup backup workers (inactive until spawned).  Every thread has a
   stack of frames [k, s, t, x] because a worker that waits for a nested scope
   runs other jobs on top of the waiting frame.                                  *)
EXTENDS PoolCounters, TLC

CONSTANTS W, MaxTasks, MaxScopes, HelpDepth, MaxBackup, AllowPanic

Thread == 0 .. (W + MaxBackup)
Worker == 1 .. W
Backup == (W + 1) .. (W + MaxBackup)
Task == 1 .. MaxTasks
Scp == 1 .. MaxScopes

VARIABLES queue,     \* the shared job channel: sequence of task ids
          tscope,    \* task -> scope it was spawned in (0: not spawned yet)
          tst,       \* task -> "unborn" | "expected" | "queued" | "running" | "done"
          runs,      \* task -> number of times its callback was started
          tpan,      \* task -> its callback panicked
          cnt,       \* scope -> <<expected, completed>>
          doneCh,    \* scope -> number of messages in its bounded(1) done channel
          sst,       \* scope -> "unborn" | "open" | "returned"
          spanic,    \* scope -> a panic payload has been recorded
          sres,      \* scope -> scope() unwound with a panic (set at return)
          stack,     \* thread -> sequence of frames
          bactive,   \* backup thread -> running
          sendFail   \* a second completion signal was attempted (the code would panic)

vars == <<queue, tscope, tst, runs, tpan, cnt, doneCh, sst, spanic, sres, stack, bactive, sendFail>>

Frame(k, s, t, x) == [k |-> k, s |-> s, t |-> t, x |-> x]
Idle == Frame("idle", 0, 0, 0)
Top(th) == stack[th][Len(stack[th])]
HasTop(th, k) == Len(stack[th]) > 0 /\ Top(th).k = k
SetTop(th, f) == [stack EXCEPT ![th] = [@ EXCEPT ![Len(@)] = f]]
PushF(th, f) == [stack EXCEPT ![th] = Append(@, f)]
PopF(th) == [stack EXCEPT ![th] = SubSeq(@, 1, Len(@) - 1)]

Unborn == {t \in Task : tst[t] = "unborn"}
NextTask == CHOOSE t \in Unborn : \A u \in Unborn : t <= u
UnbornS == {s \in Scp : sst[s] = "unborn"}
NextScope == CHOOSE s \in UnbornS : \A u \in UnbornS : s <= u
HelpFrames(th) == Cardinality({i \in 1 .. Len(stack[th]) : stack[th][i].k = "help"})

Init ==
  /\ queue = <<>>
  /\ tscope = [t \in Task |-> 0] /\ tst = [t \in Task |-> "unborn"] /\ runs = [t \in Task |-> 0]
  /\ tpan = [t \in Task |-> FALSE]
  /\ cnt = [s \in Scp |-> IF s = 1 THEN CInit ELSE <<0, 0>>]
  /\ doneCh = [s \in Scp |-> 0]
  /\ sst = [s \in Scp |-> IF s = 1 THEN "open" ELSE "unborn"]
  /\ spanic = [s \in Scp |-> FALSE] /\ sres = [s \in Scp |-> FALSE]
  /\ stack = [th \in Thread |-> IF th = 0 THEN <<Frame("body", 1, 0, 0)>>
                                ELSE IF th \in Worker THEN <<Idle>> ELSE <<>>]
  /\ bactive = [b \in Backup |-> FALSE]
  /\ sendFail = FALSE

\* ---------------------------------------------------------------- callbacks
\* Scope::spawn, first half: the task is counted before it is enqueued
BodySpawnA(th) ==
  /\ HasTop(th, "body") /\ Top(th).x = 0 /\ Unborn # {}
  /\ LET u == NextTask
         s == Top(th).s
     IN /\ cnt' = [cnt EXCEPT ![s] = CExpect(@)]
        /\ tscope' = [tscope EXCEPT ![u] = s]
        /\ tst' = [tst EXCEPT ![u] = "expected"]
        /\ stack' = SetTop(th, [Top(th) EXCEPT !.x = u])
  /\ UNCHANGED <<queue, runs, tpan, doneCh, sst, spanic, sres, bactive, sendFail>>

\* Scope::spawn, second half
BodySpawnB(th) ==
  /\ HasTop(th, "body") /\ Top(th).x # 0
  /\ LET u == Top(th).x IN
     /\ queue' = Append(queue, u)
     /\ tst' = [tst EXCEPT ![u] = "queued"]
     /\ stack' = SetTop(th, [Top(th) EXCEPT !.x = 0])
  /\ UNCHANGED <<tscope, runs, tpan, cnt, doneCh, sst, spanic, sres, bactive, sendFail>>

\* a callback calls scope(): the root callback of the new scope runs on this stack
BodyOpen(th) ==
  /\ HasTop(th, "body") /\ Top(th).x = 0 /\ UnbornS # {}
  /\ LET s2 == NextScope IN
     /\ sst' = [sst EXCEPT ![s2] = "open"]
     /\ cnt' = [cnt EXCEPT ![s2] = CInit]
     /\ stack' = PushF(th, Frame("body", s2, 0, 0))
  /\ UNCHANGED <<queue, tscope, tst, runs, tpan, doneCh, spanic, sres, bactive, sendFail>>

\* the callback returns normally
BodyEnd(th) ==
  /\ HasTop(th, "body") /\ Top(th).x = 0
  /\ stack' = SetTop(th, Frame("comp", Top(th).s, Top(th).t, 0))
  /\ UNCHANGED <<queue, tscope, tst, runs, tpan, cnt, doneCh, sst, spanic, sres, bactive, sendFail>>

\* the callback panics: a task's payload is recorded in its scope before the task is
\* counted as completed; a root's payload is kept by scope() and resumed at the end
BodyPanic(th) ==
  /\ AllowPanic /\ HasTop(th, "body") /\ Top(th).x = 0
  /\ stack' = SetTop(th, IF Top(th).t # 0 THEN Frame("recpanic", Top(th).s, Top(th).t, 0)
                         ELSE Frame("comp", Top(th).s, 0, 1))
  /\ UNCHANGED <<queue, tscope, tst, runs, tpan, cnt, doneCh, sst, spanic, sres, bactive, sendFail>>

RecPanic(th) ==
  /\ HasTop(th, "recpanic")
  /\ spanic' = [spanic EXCEPT ![Top(th).s] = TRUE]
  /\ tpan' = [tpan EXCEPT ![Top(th).t] = TRUE]
  /\ stack' = SetTop(th, Frame("comp", Top(th).s, Top(th).t, 0))
  /\ UNCHANGED <<queue, tscope, tst, runs, cnt, doneCh, sst, sres, bactive, sendFail>>

\* ---------------------------------------------------------------- completion
\* complete_one: fetch_add on the packed counter; the completion that makes
\* completed = expected goes on to signal `done`; a root that is not last waits
Complete(th) ==
  /\ HasTop(th, "comp")
  /\ LET f == Top(th)
         last == CIsLast(cnt[f.s])
     IN /\ cnt' = [cnt EXCEPT ![f.s] = CComplete(@)]
        /\ tst' = IF f.t # 0 THEN [tst EXCEPT ![f.t] = "done"] ELSE tst
        /\ stack' = IF last THEN SetTop(th, Frame("send", f.s, f.t, f.x))
                    ELSE IF f.t # 0 THEN PopF(th)
                    ELSE SetTop(th, Frame("wait", f.s, 0, f.x))
  /\ UNCHANGED <<queue, tscope, runs, tpan, doneCh, sst, spanic, sres, bactive, sendFail>>

\* try_send(()) on the bounded(1) channel: `.expect("..signaled once")`
Send(th) ==
  /\ HasTop(th, "send")
  /\ LET f == Top(th) IN
     /\ IF doneCh[f.s] = 0 THEN doneCh' = [doneCh EXCEPT ![f.s] = 1] /\ sendFail' = sendFail
        ELSE doneCh' = doneCh /\ sendFail' = TRUE
     /\ stack' = IF f.t # 0 THEN PopF(th) ELSE SetTop(th, Frame("ret", f.s, 0, f.x))
  /\ UNCHANGED <<queue, tscope, tst, runs, tpan, cnt, sst, spanic, sres, bactive>>

\* wait_for_scope_completion: which of the three ways this thread waits
Wait(th) ==
  /\ HasTop(th, "wait")
  /\ LET f == Top(th) IN
     IF th = 0 THEN stack' = SetTop(th, Frame("block", f.s, 0, f.x)) /\ bactive' = bactive
     ELSE IF HelpFrames(th) < HelpDepth THEN stack' = SetTop(th, Frame("help", f.s, 0, f.x)) /\ bactive' = bactive
     ELSE \E b \in Backup :
            /\ ~bactive[b] /\ \A b2 \in Backup : b2 < b => bactive[b2]
            /\ bactive' = [bactive EXCEPT ![b] = TRUE]
            /\ stack' = [SetTop(th, Frame("bblock", f.s, b, f.x)) EXCEPT ![b] = <<Idle>>]
  /\ UNCHANGED <<queue, tscope, tst, runs, tpan, cnt, doneCh, sst, spanic, sres, sendFail>>

Block(th) ==
  /\ HasTop(th, "block") /\ doneCh[Top(th).s] = 1
  /\ doneCh' = [doneCh EXCEPT ![Top(th).s] = 0]
  /\ stack' = SetTop(th, Frame("ret", Top(th).s, 0, Top(th).x))
  /\ UNCHANGED <<queue, tscope, tst, runs, tpan, cnt, sst, spanic, sres, bactive, sendFail>>

HelpDone(th) ==
  /\ HasTop(th, "help") /\ doneCh[Top(th).s] = 1
  /\ doneCh' = [doneCh EXCEPT ![Top(th).s] = 0]
  /\ stack' = SetTop(th, Frame("ret", Top(th).s, 0, Top(th).x))
  /\ UNCHANGED <<queue, tscope, tst, runs, tpan, cnt, sst, spanic, sres, bactive, sendFail>>

StartTask(th, u) ==
  /\ queue' = Tail(queue)
  /\ tst' = [tst EXCEPT ![u] = "running"]
  /\ runs' = [runs EXCEPT ![u] = @ + 1]
  /\ stack' = PushF(th, Frame("body", tscope[u], u, 0))

HelpPop(th) ==
  /\ HasTop(th, "help") /\ queue # <<>>
  /\ StartTask(th, Head(queue))
  /\ UNCHANGED <<tscope, tpan, cnt, doneCh, sst, spanic, sres, bactive, sendFail>>

IdlePop(th) ==
  /\ th # 0 /\ HasTop(th, "idle") /\ queue # <<>>
  /\ StartTask(th, Head(queue))
  /\ UNCHANGED <<tscope, tpan, cnt, doneCh, sst, spanic, sres, bactive, sendFail>>

BBlock(th) ==
  /\ HasTop(th, "bblock") /\ doneCh[Top(th).s] = 1
  /\ doneCh' = [doneCh EXCEPT ![Top(th).s] = 0]
  /\ stack' = SetTop(th, Frame("bjoin", Top(th).s, Top(th).t, Top(th).x))
  /\ UNCHANGED <<queue, tscope, tst, runs, tpan, cnt, sst, spanic, sres, bactive, sendFail>>

\* BackupWorker::drop: shutdown message + join: the backup finishes its current job first
BJoin(th) ==
  /\ HasTop(th, "bjoin")
  /\ LET b == Top(th).t IN
     /\ stack[b] = <<Idle>>
     /\ bactive' = [bactive EXCEPT ![b] = FALSE]
     /\ stack' = [SetTop(th, Frame("ret", Top(th).s, 0, Top(th).x)) EXCEPT ![b] = <<>>]
  /\ UNCHANGED <<queue, tscope, tst, runs, tpan, cnt, doneCh, sst, spanic, sres, sendFail>>

\* scope() returns to the callback that called it (or to the program, for scope 1);
\* a recorded task panic or the root's own panic unwinds into that callback
Ret(th) ==
  /\ HasTop(th, "ret")
  /\ LET f == Top(th)
         pan == f.x = 1 \/ spanic[f.s]
         below == Len(stack[th]) - 1
     IN /\ sst' = [sst EXCEPT ![f.s] = "returned"]
        /\ sres' = [sres EXCEPT ![f.s] = pan]
        /\ stack' = IF below = 0 \/ ~pan THEN PopF(th)
                    ELSE LET p == stack[th][below] IN
                         [stack EXCEPT ![th] = Append(SubSeq(@, 1, below - 1),
                              IF p.t # 0 THEN Frame("recpanic", p.s, p.t, 0) ELSE Frame("comp", p.s, 0, 1))]
  /\ UNCHANGED <<queue, tscope, tst, runs, tpan, cnt, doneCh, spanic, bactive, sendFail>>

Step(th) ==
  \/ BodySpawnA(th) \/ BodySpawnB(th) \/ BodyOpen(th) \/ BodyEnd(th) \/ BodyPanic(th) \/ RecPanic(th)
  \/ Complete(th) \/ Send(th) \/ Wait(th) \/ Block(th) \/ HelpDone(th) \/ HelpPop(th) \/ IdlePop(th)
  \/ BBlock(th) \/ BJoin(th) \/ Ret(th)

Finished == stack[0] = <<>>
Terminated == Finished /\ UNCHANGED vars

Next == (\E th \in Thread : Step(th)) \/ Terminated
Spec == Init /\ [][Next]_vars /\ \A th \in Thread : WF_vars(Step(th))

\* ---------------------------------------------------------------- properties
TasksOf(s) == {t \in Task : tscope[t] = s}
FramesOn(s) == {<<th, i>> \in Thread \X (1 .. (MaxScopes + MaxTasks + 2)) : i <= Len(stack[th]) /\ stack[th][i].s = s}

\* scope() returns only after every task spawned in it has run exactly once, and
\* nobody touches the (stack-allocated) scope state afterwards
ScopeReturnsAfterAll ==
  \A s \in Scp : sst[s] = "returned" =>
     /\ \A t \in TasksOf(s) : tst[t] = "done" /\ runs[t] = 1
     /\ FramesOn(s) = {}
     /\ ~CLive(cnt[s])
ExactlyOnce == \A t \in Task : runs[t] <= 1
DoneSentOnce == ~sendFail /\ \A s \in Scp : doneCh[s] <= 1
CountsOK == \A s \in Scp : cnt[s][2] <= cnt[s][1]
\* the scope state is only operated on while it still expects work
NoTouchAfterComplete ==
  \A th \in Thread : \A i \in 1 .. Len(stack[th]) :
     stack[th][i].k \in {"body", "comp", "recpanic"} => CLive(cnt[stack[th][i].s])
\* a panicking task is reported to the caller of its scope
PanicNotLost == \A s \in Scp : (sst[s] = "returned" /\ \E t \in TasksOf(s) : tpan[t]) => sres[s]
\* a queued task is in the queue exactly once
QueueOK == /\ \A t \in Task : tst[t] = "queued" <=> \E i \in 1 .. Len(queue) : queue[i] = t
           /\ \A i, j \in 1 .. Len(queue) : i # j => queue[i] # queue[j]

Safety == ScopeReturnsAfterAll /\ ExactlyOnce /\ DoneSentOnce /\ CountsOK /\ NoTouchAfterComplete /\ PanicNotLost /\ QueueOK

\* liveness: under weak fairness of every thread the outermost scope returns
Terminates == <>Finished
=============================================================================
