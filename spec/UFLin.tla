-------------------------------- MODULE UFLin --------------------------------
(* Sequential meaning of the union-find operations and a linearizability check of
   a history against it; shared by the design model of the concurrent structure
   (ConcUF.tla) and by the trace specification (ConcUF_Trace.tla).

   The abstract state is rep: id -> least id of its class (union by min makes the
   least id the representative).  An operation is a record
     [id, op |-> "find" | "union" | "same", a, b, res (a pair), call, ret]
   where call / ret are positions in one totally ordered log.                     *)
EXTENDS Integers, Sequences, FiniteSets

Min2(x, y) == IF x < y THEN x ELSE y
Max2(x, y) == IF x < y THEN y ELSE x

\* result of an operation in state rep
SeqRes(o, rep) ==
  IF o.op = "find" THEN <<rep[o.a], rep[o.a]>>
  ELSE IF o.op = "same" THEN (IF rep[o.a] = rep[o.b] THEN <<1, 1>> ELSE <<0, 0>>)
  ELSE IF rep[o.a] = rep[o.b] THEN <<rep[o.a], rep[o.a]>>
  ELSE <<Min2(rep[o.a], rep[o.b]), Max2(rep[o.a], rep[o.b])>>       \* (new parent, new child)

\* state after an operation
SeqNext(o, rep) ==
  IF o.op # "union" \/ rep[o.a] = rep[o.b] THEN rep
  ELSE LET p == Min2(rep[o.a], rep[o.b])
           c == Max2(rep[o.a], rep[o.b])
       IN [i \in DOMAIN rep |-> IF rep[i] = c THEN p ELSE rep[i]]

\* What the concurrent algorithm guarantees for a union that links (res = <<p, c>>, p # c) when
\* its parent root is displaced between the find and the CAS: c is the larger of the two current
\* roots, p a smaller member of the other class (not necessarily its root any more).
RelaxedRes(o, rep) ==
  IF o.op = "union" /\ o.res[1] # o.res[2]
  THEN /\ rep[o.a] # rep[o.b]
       /\ o.res[2] = Max2(rep[o.a], rep[o.b])
       /\ o.res[1] \in DOMAIN rep /\ rep[o.res[1]] = Min2(rep[o.a], rep[o.b]) /\ o.res[1] < o.res[2]
  ELSE SeqRes(o, rep) = o.res

\* Is there a total order of the operations, consistent with real time (an operation that
\* returned before another was called comes first), in which every operation returns what
\* the sequential structure returns?  Depth-first search over the minimal remaining operations.
RECURSIVE LinFrom(_, _, _)
LinFrom(rem, rep, strict) ==
  \/ rem = {}
  \/ \E o \in rem :
       /\ \A p \in rem : p.ret > o.call
       /\ IF strict THEN SeqRes(o, rep) = o.res ELSE RelaxedRes(o, rep)
       /\ LinFrom(rem \ {o}, SeqNext(o, rep), strict)

Linearizable(ops, ids) == LinFrom(ops, [i \in ids |-> i], TRUE)
\* the same with the weaker meaning of a linking union's return value
RelaxedLinearizable(ops, ids) == LinFrom(ops, [i \in ids |-> i], FALSE)

\* the partition a set of union operations generates (all of them applied, any order)
RECURSIVE ApplyAll(_, _)
ApplyAll(us, rep) ==
  IF us = {} THEN rep
  ELSE LET o == CHOOSE x \in us : TRUE IN ApplyAll(us \ {o}, SeqNext(o, rep))
FinalRep(ops, ids) == ApplyAll({o \in ops : o.op = "union"}, [i \in ids |-> i])
=============================================================================
