SPECIFICATION TraceSpec
CONSTANTS Keys = {0, 1, 2, 3}
 Vals = {1, 2, 3}
 MaxTs = 6
 Thresh = 16
INVARIANT HashConsistent LookupIsModel ScanIsModel SortedByTs
CHECK_DEADLOCK FALSE
