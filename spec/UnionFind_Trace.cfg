SPECIFICATION TraceSpec
CONSTANT N = 6
INVARIANT TypeOK SameRepIffConnected RepIsMin ParentsPointDown
CHECK_DEADLOCK FALSE
