SPECIFICATION MCSpec
CONSTANT N = 4
VIEW View
INVARIANT TypeOK SameRepIffConnected RepIsMin ParentsPointDown OutIsRep
PROPERTY FindPreservesPartition ResetRestores
CHECK_DEADLOCK FALSE
