----------------------------- MODULE Table_Trace -----------------------------
(* Trace validation for the table store (C16): every operation on the real
   SortedWritesTable / DisplacedTable must be the corresponding action of Table
   (resp. the small displaced-id model below) and everything the table answers
   afterwards -- len, full scan, point lookups, constrained scans, fast subsets
   on the sort column, version -- must be what the keyed map would answer.     *)
EXTENDS Table, Json, IOUtils

Rec == ndJsonDeserialize(IOEnv.TRACE)

VARIABLES l,
          rver,     \* the version last reported by the real table
          ucls,     \* displaced-id table: class minimum of every id (union by min)
          udis,     \* displaced-id table: sequence of <<child, ts>>
          upend     \* displaced-id table: staged <<a, b, ts>>

Bad(code) == PrintT(<<"BAD", l, code>>)

RowsOfModel == {<<k, model[k][1], model[k][2]>> : k \in {x \in Keys : model[x] # None}}
SetOf(seq) == {seq[i] : i \in 1 .. Len(seq)}
Holds(c, r) ==
  IF c.c = "eq" THEN r[c.col] = c.val
  ELSE IF c.c = "lt" THEN r[c.col] < c.val
  ELSE IF c.c = "ge" THEN r[c.col] >= c.val
  ELSE IF c.c = "gt" THEN r[c.col] > c.val
  ELSE IF c.c = "le" THEN r[c.col] <= c.val
  ELSE r[c.col] = r[c.val]                                   \* eqcol

\* everything logged after an operation against the model state (primed variables)
Observed(o) ==
  LET M == {<<k, model'[k][1], model'[k][2]>> : k \in {x \in Keys : model'[x] # None}} IN
  /\ (o.len # Cardinality(M)) => Bad("len")
  /\ (SetOf(o.scan) # M \/ Len(o.scan) # Cardinality(M)) => Bad("scan-is-not-the-live-rows")
  /\ (~KeepTs /\ \E i \in 1 .. Len(o.scan) - 1 : o.scan[i][3] > o.scan[i + 1][3]) => Bad("scan-not-timestamp-ordered")
  /\ (\E k \in Keys : o.get[k + 1] # (IF model'[k] = None THEN <<>> ELSE <<k, model'[k][1], model'[k][2]>>)) => Bad("get_row")
  /\ (\E i \in 1 .. Len(o.cons) : SetOf(o.cons[i].rows) # {r \in M : Holds(o.cons[i], r)}
                                  \/ Len(o.cons[i].rows) # Cardinality({r \in M : Holds(o.cons[i], r)})) => Bad("constrained-scan")
  /\ (\E i \in 1 .. Len(o.fast) : SetOf(o.fast[i].rows) # {r \in M : Holds([c |-> o.fast[i].c, col |-> 3, val |-> o.fast[i].val], r)}) => Bad("fast-subset")
  \* the numeric version is representation (the parallel insertion path appends rows it then marks
  \* stale): required are only monotonicity and a change whenever a row was added or rewritten
  /\ (o.ver[1] < rver[1] \/ (o.ver[1] = rver[1] /\ o.ver[2] < rver[2])) => Bad("version-went-backwards")
  /\ ((\E k \in Keys : model'[k] # model[k] /\ model'[k] # None) /\ o.ver = rver) => Bad("version-unchanged-after-addition")
  /\ rver' = o.ver

TNew == /\ l <= Len(Rec) /\ Rec[l].e = "tnew" /\ l' = l + 1
        /\ data' = <<>> /\ hash' = [k \in Keys |-> 0] /\ pend' = <<>> /\ ts' = 0 /\ gen' = <<0, 0>>
        /\ model' = [k \in Keys |-> None]
        /\ rver' = Rec[l].obs.ver
        /\ UNCHANGED <<ucls, udis, upend>>
Ev(e) == l <= Len(Rec) /\ Rec[l].e = e /\ l' = l + 1 /\ UNCHANGED <<ucls, udis, upend>>
TIns == Ev("ins") /\ Rec[l].t = ts /\ StageInsert(Rec[l].k, Rec[l].v) /\ Observed(Rec[l].obs)
TRem == Ev("rem") /\ StageRemove(Rec[l].k) /\ Observed(Rec[l].obs)
TTick == Ev("tick") /\ Tick /\ Observed(Rec[l].obs)
TMerge == /\ Ev("merge") /\ Merge /\ Observed(Rec[l].obs)
          \* Database::merge_all reports additions (new keys, rewritten rows); removals alone do not count
          /\ LET added == \E k \in Keys : model'[k] # None /\ (model'[k] # model[k] \/ k \in Removed(pend))
             IN (Rec[l].changed # (IF added THEN 1 ELSE 0)) => Bad("merge-changed-flag")
TClear == Ev("clear") /\ Clear /\ Observed(Rec[l].obs)
TPanic == /\ Ev("tpanic") /\ Bad("panicked-" \o Rec[l].op) /\ UNCHANGED <<vars, rver>>

\* ---- displaced-id (union-find) table
Ids == 0 .. 5
UMerge(c, a, b) == LET m == IF c[a] <= c[b] THEN c[a] ELSE c[b] IN
                   [i \in Ids |-> IF c[i] = c[a] \/ c[i] = c[b] THEN m ELSE c[i]]
RECURSIVE UApply(_, _, _, _)
UApply(c, d, ops, i) ==
  IF i > Len(ops) THEN <<c, d>>
  ELSE LET a == ops[i][1]
           b == ops[i][2]
       IN IF c[a] = c[b] THEN UApply(c, d, ops, i + 1)
          ELSE UApply(UMerge(c, a, b), Append(d, <<IF c[a] <= c[b] THEN c[b] ELSE c[a], ops[i][3]>>), ops, i + 1)
UObserved(o) ==
  LET rows == [i \in 1 .. Len(udis') |-> <<udis'[i][1], ucls'[udis'[i][1]], udis'[i][2]>>] IN
  /\ (o.len # Len(udis')) => Bad("uf-len")
  /\ (o.scan # rows) => Bad("uf-scan")
  /\ (\E k \in Ids : o.canon[k + 1] # ucls'[k]) => Bad("uf-canonical")
  /\ (\E k \in Ids : o.get[k + 1] # (IF \E i \in 1 .. Len(udis') : udis'[i][1] = k
                                    THEN LET i == CHOOSE j \in 1 .. Len(udis') : udis'[j][1] = k IN <<k, ucls'[k], udis'[i][2]>>
                                    ELSE <<>>)) => Bad("uf-get_row")
UEv(e) == l <= Len(Rec) /\ Rec[l].e = e /\ l' = l + 1 /\ UNCHANGED <<vars, rver>>
UNew == UEv("unew") /\ ucls' = [i \in Ids |-> i] /\ udis' = <<>> /\ upend' = <<>> /\ UObserved(Rec[l].obs)
UIns == UEv("uins") /\ upend' = Append(upend, <<Rec[l].a, Rec[l].b, Rec[l].t>>) /\ UNCHANGED <<ucls, udis>> /\ UObserved(Rec[l].obs)
UTick == UEv("utick") /\ UNCHANGED <<ucls, udis, upend>> /\ UObserved(Rec[l].obs)
UMergeAll == /\ UEv("umerge")
             /\ LET x == UApply(ucls, udis, upend, 1) IN ucls' = x[1] /\ udis' = x[2]
             /\ upend' = <<>> /\ UObserved(Rec[l].obs)
             /\ (Rec[l].changed # (IF udis' # udis THEN 1 ELSE 0)) => Bad("uf-merge-changed-flag")
\* (deviation of the code, kept: DisplacedTable::clear does not drop the staged, unmerged unions)
UClear == UEv("uclear") /\ ucls' = [i \in Ids |-> i] /\ udis' = <<>> /\ UNCHANGED upend /\ UObserved(Rec[l].obs)
UPanic == UEv("upanic") /\ Bad("uf-panicked-" \o Rec[l].op) /\ UNCHANGED <<ucls, udis, upend>>

TraceInit == Init /\ l = 1 /\ rver = <<0, 0>> /\ ucls = [i \in Ids |-> i] /\ udis = <<>> /\ upend = <<>>
TraceNext == TNew \/ TIns \/ TRem \/ TTick \/ TMerge \/ TClear \/ TPanic
             \/ UNew \/ UIns \/ UTick \/ UMergeAll \/ UClear \/ UPanic
TraceSpec == TraceInit /\ [][TraceNext]_<<vars, l, rver, ucls, udis, upend>>
=============================================================================
