---------------------------- MODULE MC_SchedExt ----------------------------
(* Exhaustive exploration of the custom-scheduler semantics (SchedExt, C18) on a
   fixed monotone model program: base commands (insert / union) interleaved with
   scheduler steps under every policy of {all, none, one} x {seek, do not seek}
   per rule.  The idealised engine collects every match once (coll), carries the
   unchosen ones (resid) and applies the chosen ones modulo the current
   equalities.  Checked on every reachable state:

     ChooseAllIsRun     a step that chooses everything gives the database of one
                        built-in iteration of the ruleset
     FairReachesSat     however matches were delayed so far, choosing everything
                        from now on reaches the saturation of the built-in
                        schedule run on the inputs alone (confluence)
     NothingLost        every match of a body is collected, carried or applied
                        once the rule seeks

   Every transition prints a REPLAY line (the history), which the harness executes
   on the real engine with an instrumented scheduler.                            *)
EXTENDS SchedExt, Json, IOUtils

Model == ndJsonDeserialize(IOEnv.MODEL)[1]
Cmds == Model.cmds
MaxLen == Model.maxlen
RS == Model.rs
HV(r) == Model.hv[r]

VARIABLES hist, resid, coll, applied, seek, base
\* base: the database the inputs alone generate (no rule has run)
mcvars == <<vars, hist, resid, coll, applied, seek, base>>

Rules == RulesOf(RS, active)

MCInit == /\ prog = Model.prog /\ rows = {} /\ active = {Model.active[i] : i \in 1 .. Len(Model.active)}
          /\ stack = <<>> /\ res = "ok" /\ hist = <<>> /\ base = {}
          /\ resid = [r \in {} |-> {}] /\ coll = [r \in {} |-> {}] /\ applied = [r \in {} |-> {}] /\ seek = [r \in {} |-> TRUE]

Get(f, r) == IF r \in DOMAIN f THEN f[r] ELSE {}
SeekOfM(r) == IF r \in DOMAIN seek THEN seek[r] ELSE TRUE
New(R, r) == IF SeekOfM(r) THEN ProjMatches(R, r, HV(r)) \ Get(coll, r) ELSE {}
Offered(R, r) == Get(resid, r) \cup New(R, r)
ReAll(R, f) == [r \in DOMAIN f |-> ReNameSet(R, f[r])]

BaseCmd(R, c) == IF c.k = "ins" THEN CmdIns(R, c) ELSE IF c.k = "union" THEN CmdUnion(R, c) ELSE CmdSet(R, c)

Do(i) ==
  LET x == BaseCmd(rows, Cmds[i])
      b == BaseCmd(base, Cmds[i])
  IN /\ Len(hist) < MaxLen /\ x.ok /\ b.ok
     /\ rows' = x.rows /\ base' = b.rows /\ res' = "ok"
     /\ resid' = ReAll(x.rows, resid) /\ coll' = ReAll(x.rows, coll) /\ applied' = ReAll(x.rows, applied)
     /\ hist' = Append(hist, [c |-> i])
     /\ PrintT(<<"REPLAY", ToJson(hist')>>)
     /\ UNCHANGED <<prog, active, stack, seek>>

\* one scheduler step: ch[r] = the matches chosen for rule r, sk[r] = the answer of filter_matches
StepWith(ch, sk, pol) ==
  LET todo == UNION {{<<r, SubOf(m, HV(r))>> : m \in ch[r]} : r \in Rules}
      x == StepResult(rows, todo)
      up(f, g) == [r \in (DOMAIN f) \cup Rules |-> IF r \in Rules THEN g[r] ELSE f[r]]
  IN /\ Len(hist) < MaxLen /\ x.ok
     /\ rows' = x.rows /\ res' = "ok"
     /\ resid' = ReAll(x.rows, up(resid, [r \in Rules |-> Offered(rows, r) \ ch[r]]))
     /\ coll' = ReAll(x.rows, up(coll, [r \in Rules |-> Get(coll, r) \cup New(rows, r)]))
     /\ applied' = ReAll(x.rows, up(applied, [r \in Rules |-> Get(applied, r) \cup ch[r]]))
     /\ seek' = [r \in (DOMAIN seek) \cup Rules |-> IF r \in Rules THEN sk[r] ELSE seek[r]]
     /\ hist' = Append(hist, [s |-> [r \in Rules |-> pol[r]], k |-> [r \in Rules |-> IF sk[r] THEN 1 ELSE 0]])
     /\ PrintT(<<"REPLAY", ToJson(hist')>>)
     /\ UNCHANGED <<prog, active, stack, base>>

SStep ==
  \E pol \in [Rules -> {"all", "none", "one"}], sk \in [Rules -> BOOLEAN] :
    \E ch \in [Rules -> SUBSET (UNION {Offered(rows, r) : r \in Rules})] :
      /\ \A r \in Rules :
           /\ ch[r] \subseteq Offered(rows, r)
           /\ pol[r] = "all" => ch[r] = Offered(rows, r)
           /\ pol[r] = "none" => ch[r] = {}
           /\ pol[r] = "one" => Cardinality(ch[r]) = 1
      /\ StepWith(ch, sk, pol)

MCNext == (\E i \in 1 .. Len(Cmds) : Do(i)) \/ SStep
MCSpec == MCInit /\ [][MCNext]_mcvars
View == <<rows, active, resid, coll, applied, seek, base>>

\* ------------------------------------------------------------------ properties
StateConsistent == Consistent(rows)

\* choosing everything (from a state where every rule seeks) is one built-in iteration
AllTodo(R) == UNION {{<<r, SubOf(m, HV(r))>> : m \in Get(resid, r) \cup ProjMatches(R, r, HV(r))} : r \in Rules}
ChooseAllIsRun ==
  LET x == StepResult(rows, AllTodo(rows))
      y == RunOnce(rows, RS, active)
  IN (x.ok /\ ~y.fail) => x.rows = y.rows

\* saturation by the built-in schedule
SatRun(R) == Sched(R, [k |-> "sat", b |-> <<[k |-> "run", rs |-> RS, until |-> <<>>]>>], active)
\* saturation by a scheduler that chooses everything from now on (carried matches first)
RECURSIVE SatAll(_, _, _)
SatAll(R, carried, fuel) ==
  LET todo == UNION {{<<r, SubOf(m, HV(r))>> : m \in ReNameSet(R, Get(carried, r)) \cup ProjMatches(R, r, HV(r))} : r \in Rules}
      x == StepResult(R, todo)
  IN IF fuel = 0 \/ ~x.ok \/ x.rows = R THEN R ELSE SatAll(x.rows, [r \in {} |-> {}], fuel - 1)
FairReachesSat ==
  LET a == SatAll(rows, resid, SatFuel)
      b == SatRun(base)
  IN ~b.fail => a = b.rows

NothingLost == \A r \in Rules : SeekOfM(r) => ProjMatches(rows, r, HV(r)) \subseteq Get(coll, r) \cup New(rows, r)
CollectedAccounted == \A r \in DOMAIN coll : coll[r] \subseteq Get(resid, r) \cup Get(applied, r)
=============================================================================
