----------------------------- MODULE MC_EggAbs -----------------------------
(* Exhaustive exploration of EggAbs for a fixed model program and a finite
   command alphabet, both read from the JSON file named by the environment
   variable MODEL (one object: prog, active, cmds, maxlen, univ).  `hist` (the
   indices of the commands issued so far) is hidden from the VIEW, so TLC
   expands every distinct database once, along a shortest history, and prints
   one REPLAY line per transition of the quotient graph: the transition cover
   that the harness replays on the real engine.

   EqIsCC is the meta-check of the oracle itself (C01): on programs whose
   alphabet has only insertions and unions, the equality EggAbs reports between
   ground terms of the universe `univ` must coincide with the congruence
   closure of the asserted unions, computed here independently and naively over
   the whole universe (not only over represented terms).                      *)
EXTENDS EggAbs, Json, IOUtils

Model == ndJsonDeserialize(IOEnv.MODEL)[1]
Cmds == Model.cmds
MaxLen == Model.maxlen

VARIABLES hist,      \* indices into Cmds
          asserted   \* ghost: set of <<t1, t2>> flat ground terms unioned so far; inserted terms as <<t, t>>

MCInit == /\ prog = Model.prog
          /\ rows = {}
          /\ active = {Model.active[i] : i \in 1 .. Len(Model.active)}
          /\ stack = <<>>
          /\ res = "ok"
          /\ hist = <<>>
          /\ asserted = {}

\* flat name of a ground term (pure syntax)
RECURSIVE FlatG(_)
FlatG(t) == IF Has(t, "i") THEN IntV(t.i)
            ELSE IF Has(t, "set") THEN SetV({t.set[k] : k \in 1 .. Len(t.set)})
            ELSE <<t.f>> \o FlatCat([k \in 1 .. Len(t.a) |-> FlatG(t.a[k])])

Expect(c) ==
  IF c.k = "ins" THEN CmdIns(rows, c)
  ELSE IF c.k = "union" THEN CmdUnion(rows, c)
  ELSE IF c.k = "set" THEN CmdSet(rows, c)
  ELSE IF c.k = "subsume" THEN CmdSubsume(rows, c)
  ELSE IF c.k = "delete" THEN CmdDelete(rows, c)
  ELSE IF c.k = "run" THEN CmdRun(rows, c, active)
  ELSE [rows |-> rows, ok |-> TRUE]

Do(i) ==
  LET c == Cmds[i]
      x == Expect(c)
  IN /\ Len(hist) < MaxLen
     /\ rows' = (IF x.ok THEN x.rows ELSE rows)
     /\ res' = (IF x.ok THEN "ok" ELSE "err")
     /\ active' = (IF c.k = "rule" THEN active \cup {c.r} ELSE active)
     /\ asserted' = (IF c.k = "union" THEN asserted \cup {<<FlatG(c.a), FlatG(c.b)>>}
                     ELSE IF c.k = "ins" THEN asserted \cup {<<FlatG(c.t), FlatG(c.t)>>}
                     ELSE asserted)
     /\ hist' = Append(hist, i)
     /\ PrintT(<<"REPLAY", ToJson(Append(hist, i))>>)
     /\ UNCHANGED <<prog, stack>>

MCNext == \E i \in 1 .. Len(Cmds) : Do(i)
MCSpec == MCInit /\ [][MCNext]_<<vars, hist, asserted>>
View == <<rows, active>>
ViewCC == <<rows, active, asserted>>

\* ------------------------------------------------------------------ invariants
StateConsistent == Consistent(rows)

\* ---- schedule laws (C10): law-related schedules give the same database from every
\* reachable state; a saturated schedule is a fixpoint and re-running it reports no update
SchedLaws ==
  \A i \in 1 .. Len(Model.laws) :
    LET x == Sched(rows, Model.laws[i][1], active)
        y == Sched(rows, Model.laws[i][2], active)
    IN (~x.fail /\ ~y.fail) => x.rows = y.rows
SatIsFixpoint ==
  \A i \in 1 .. Len(Model.sats) :
    LET s == Model.sats[i]
        x == Sched(rows, [k |-> "sat", b |-> <<s>>], active)
        again == Sched(x.rows, s, active)
        sat2 == Sched(x.rows, [k |-> "sat", b |-> <<s>>], active)
    IN ~x.fail => (again.rows = x.rows /\ ~again.upd /\ sat2.rows = x.rows /\ ~sat2.upd /\ sat2.stop)

\* ---- independent congruence closure over a finite universe of flat terms
Univ == {Model.univ[i].t : i \in 1 .. Len(Model.univ)}          \* flat terms
PartsF == [t \in Univ |-> (CHOOSE u \in {Model.univ[i] : i \in 1 .. Len(Model.univ)} : u.t = t).args]
Parts(t) == PartsF[t]                                        \* direct subterms (flat), in order
HeadOf(t) == t[1]

\* the subterm-closed set of terms that exist: arguments of asserted terms exist too
RECURSIVE SubClose(_)
SubClose(S) == LET S2 == S \cup UNION {{Parts(t)[k] : k \in 1 .. Len(Parts(t))} : t \in S}
               IN IF S2 = S THEN S ELSE SubClose(S2)
Exists == SubClose({p[1] : p \in asserted} \cup {p[2] : p \in asserted})

\* congruence closure of the asserted equations over the whole (subterm-closed)
\* universe, as a function term -> least term of its class
CongUnder(rep, t1, t2) ==
  /\ HeadOf(t1) = HeadOf(t2)
  /\ Len(Parts(t1)) = Len(Parts(t2))
  /\ Len(Parts(t1)) > 0
  /\ \A k \in 1 .. Len(Parts(t1)) : rep[Parts(t1)[k]] = rep[Parts(t2)[k]]

RECURSIVE CC(_)
CC(rep) ==
  LET todo == {pq \in Univ \X Univ : rep[pq[1]] # rep[pq[2]] /\ (pq \in asserted \/ CongUnder(rep, pq[1], pq[2]))} IN
  IF todo = {} THEN rep
  ELSE LET pq == CHOOSE q \in todo : TRUE
           keep == MinT({rep[pq[1]], rep[pq[2]]})
           drop == IF keep = rep[pq[1]] THEN rep[pq[2]] ELSE rep[pq[1]]
       IN CC([t \in Univ |-> IF rep[t] = drop THEN keep ELSE rep[t]])

RefCC == CC([t \in Univ |-> t])

\* class name of a flat universe term in the abstract state (<<>> if not represented)
RECURSIVE NameOf(_)
NameOf(t) ==
  LET ps == Parts(t)
      as == [k \in 1 .. Len(ps) |-> NameOf(ps[k])]
  IN IF \E k \in 1 .. Len(as) : as[k] = <<>> THEN <<>>
     ELSE LET hit == RowsAt(rows, HeadOf(t), as) IN IF hit = {} THEN <<>> ELSE (CHOOSE r \in hit : TRUE).o

\* Equality reported by the abstract state between ground terms of the universe
\* is exactly the congruence closure of what was asserted (the universe is
\* subterm-closed and contains every asserted term, so the closure restricted
\* to it is complete); a term is represented iff it is congruent to a term that
\* was inserted.
EqIsCC ==
  LET cc == RefCC IN
  /\ \A t \in Exists : NameOf(t) # <<>>
  /\ \A t \in Univ : (NameOf(t) # <<>>) <=> (\E e \in Exists : cc[t] = cc[e])
  /\ \A t1, t2 \in Univ : (NameOf(t1) # <<>> /\ NameOf(t2) # <<>>) =>
        ((NameOf(t1) = NameOf(t2)) <=> (cc[t1] = cc[t2]))
=============================================================================
