------------------------------- MODULE ConcUF -------------------------------
(* Design model of the concurrent union-find (union-find/src/concurrent/uf.rs,
   buffer.rs), one action per atomic load / CAS:

     find_impl(x):  cur := x; next := load(cur)            FLoad1
                    grand := load(next)                      FLoad2   (next = grand: return next)
                    cas(cur: next -> grand); cur := next     FSplit   (path splitting; result ignored)
     merge(l, r):   l := find(l); r := find(r)               (two finds)
                    l = r: return (l, l)                     MCmp
                    cas(max: max -> min)                     MCas     (failure: start over with the roots found)
     same_set(l,r): l := find(l); r := find(r); l = r: true  SCmp
                    next := load(l); next = l: false         SLoad    (else start over)
     Buffer::with_access(len): the operation runs under the read side of the
                    buffer lock; an id beyond the capacity makes the caller take
                    the write side (no operation in flight) and grow to the next
                    power of two                              Grow

   Every thread executes its program Prog[t] (a sequence of operations); calls and
   returns are appended to the history `hist`, and when all programs are finished
   the history must be linearizable w.r.t. the sequential union-find (UFLin).     *)
EXTENDS UFLin, TLC

CONSTANTS N,        \* ids 0 .. N-1
          Cap0,     \* initial capacity
          Prog      \* thread -> sequence of [op, a, b]

Thr == DOMAIN Prog
Ids == 0 .. (N - 1)

VARIABLES parent,   \* id -> id, for ids below cap
          cap,
          inside,   \* threads running an operation (read side of the buffer lock)
          pc, ip,   \* thread -> program counter / index of the current operation
          cur, nxt, grand, lv, rv, cont,
          hist      \* sequence of [t, k |-> "call" | "ret", i, res]

vars == <<parent, cap, inside, pc, ip, cur, nxt, grand, lv, rv, cont, hist>>

RECURSIVE Pow2(_)
Pow2(n) == IF n <= 1 THEN 1 ELSE 2 * Pow2((n + 1) \div 2)

OpOf(t) == Prog[t][ip[t]]
Need(o) == (IF o.op = "find" THEN o.a ELSE Max2(o.a, o.b)) + 1

Init ==
  /\ parent = [i \in 0 .. (Cap0 - 1) |-> i] /\ cap = Cap0 /\ inside = {}
  /\ pc = [t \in Thr |-> "idle"] /\ ip = [t \in Thr |-> 1]
  /\ cur = [t \in Thr |-> 0] /\ nxt = [t \in Thr |-> 0] /\ grand = [t \in Thr |-> 0]
  /\ lv = [t \in Thr |-> 0] /\ rv = [t \in Thr |-> 0] /\ cont = [t \in Thr |-> "none"]
  /\ hist = <<>>

\* the buffer is too small for the next operation of t: grow under the write lock
Grow(t) ==
  /\ pc[t] = "idle" /\ ip[t] <= Len(Prog[t]) /\ Need(OpOf(t)) > cap /\ inside = {}
  /\ LET c2 == Pow2(Need(OpOf(t))) IN
     /\ cap' = c2
     /\ parent' = [i \in 0 .. (c2 - 1) |-> IF i < cap THEN parent[i] ELSE i]
  /\ UNCHANGED <<inside, pc, ip, cur, nxt, grand, lv, rv, cont, hist>>

\* begin a find of x on behalf of continuation c
StartFind(t, x, c) ==
  /\ cur' = [cur EXCEPT ![t] = x] /\ cont' = [cont EXCEPT ![t] = c] /\ pc' = [pc EXCEPT ![t] = "fload1"]

Call(t) ==
  /\ pc[t] = "idle" /\ ip[t] <= Len(Prog[t]) /\ Need(OpOf(t)) <= cap
  /\ inside' = inside \cup {t}
  /\ hist' = Append(hist, [t |-> t, k |-> "call", i |-> ip[t], res |-> <<0, 0>>])
  /\ LET o == OpOf(t) IN
     /\ lv' = [lv EXCEPT ![t] = o.a] /\ rv' = [rv EXCEPT ![t] = o.b]
     /\ StartFind(t, o.a, IF o.op = "find" THEN "find" ELSE IF o.op = "union" THEN "ml" ELSE "sl")
  /\ UNCHANGED <<parent, cap, ip, nxt, grand>>

FLoad1(t) ==
  /\ pc[t] = "fload1"
  /\ nxt' = [nxt EXCEPT ![t] = parent[cur[t]]]
  /\ pc' = [pc EXCEPT ![t] = "fload2"]
  /\ UNCHANGED <<parent, cap, inside, ip, cur, grand, lv, rv, cont, hist>>

Return(t, res) ==
  /\ hist' = Append(hist, [t |-> t, k |-> "ret", i |-> ip[t], res |-> res])
  /\ inside' = inside \ {t}
  /\ ip' = [ip EXCEPT ![t] = @ + 1]
  /\ pc' = [pc EXCEPT ![t] = "idle"]

\* grand := load(next); the find ends when next is a root
FLoad2(t) ==
  /\ pc[t] = "fload2"
  /\ LET g == parent[nxt[t]]
         root == nxt[t]
     IN IF g # nxt[t]
        THEN /\ grand' = [grand EXCEPT ![t] = g] /\ pc' = [pc EXCEPT ![t] = "fsplit"]
             /\ UNCHANGED <<parent, cap, inside, ip, cur, nxt, lv, rv, cont, hist>>
        ELSE \* find_impl returns `root` to its caller
          IF cont[t] = "find" THEN Return(t, <<root, root>>) /\ UNCHANGED <<parent, cap, cur, nxt, grand, lv, rv, cont>>
          ELSE IF cont[t] \in {"ml", "sl"}
          THEN /\ lv' = [lv EXCEPT ![t] = root]
               /\ StartFind(t, rv[t], IF cont[t] = "ml" THEN "mr" ELSE "sr")
               /\ UNCHANGED <<parent, cap, inside, ip, nxt, grand, rv, hist>>
          ELSE /\ rv' = [rv EXCEPT ![t] = root]
               /\ pc' = [pc EXCEPT ![t] = IF cont[t] = "mr" THEN "mcmp" ELSE "scmp"]
               /\ UNCHANGED <<parent, cap, inside, ip, cur, nxt, grand, lv, cont, hist>>

\* path splitting: cas(cur: next -> grand), result ignored; move on
FSplit(t) ==
  /\ pc[t] = "fsplit"
  /\ parent' = IF parent[cur[t]] = nxt[t] THEN [parent EXCEPT ![cur[t]] = grand[t]] ELSE parent
  /\ cur' = [cur EXCEPT ![t] = nxt[t]]
  /\ pc' = [pc EXCEPT ![t] = "fload1"]
  /\ UNCHANGED <<cap, inside, ip, nxt, grand, lv, rv, cont, hist>>

MCmp(t) ==
  /\ pc[t] = "mcmp"
  /\ IF lv[t] = rv[t] THEN Return(t, <<lv[t], lv[t]>>) /\ UNCHANGED <<parent, cap, cur, nxt, grand, lv, rv, cont>>
     ELSE pc' = [pc EXCEPT ![t] = "mcas"] /\ UNCHANGED <<parent, cap, inside, ip, cur, nxt, grand, lv, rv, cont, hist>>

\* union by min: cas(child: child -> parent) on the larger root
MCas(t) ==
  /\ pc[t] = "mcas"
  /\ LET p == Min2(lv[t], rv[t])
         c == Max2(lv[t], rv[t])
     IN IF parent[c] = c
        THEN /\ parent' = [parent EXCEPT ![c] = p]
             /\ Return(t, <<p, c>>) /\ UNCHANGED <<cap, cur, nxt, grand, lv, rv, cont>>
        ELSE /\ StartFind(t, lv[t], "ml")                 \* `continue`: find again from the roots seen
             /\ UNCHANGED <<parent, cap, inside, ip, nxt, grand, lv, rv, hist>>

SCmp(t) ==
  /\ pc[t] = "scmp"
  /\ IF lv[t] = rv[t] THEN Return(t, <<1, 1>>) /\ UNCHANGED <<parent, cap, cur, nxt, grand, lv, rv, cont>>
     ELSE pc' = [pc EXCEPT ![t] = "sload"] /\ UNCHANGED <<parent, cap, inside, ip, cur, nxt, grand, lv, rv, cont, hist>>

\* l is still a root: the classes were different when r was found
SLoad(t) ==
  /\ pc[t] = "sload"
  /\ IF parent[lv[t]] = lv[t] THEN Return(t, <<0, 0>>) /\ UNCHANGED <<parent, cap, cur, nxt, grand, lv, rv, cont>>
     ELSE StartFind(t, lv[t], "sl") /\ UNCHANGED <<parent, cap, inside, ip, nxt, grand, lv, rv, hist>>

Step(t) == Grow(t) \/ Call(t) \/ FLoad1(t) \/ FLoad2(t) \/ FSplit(t) \/ MCmp(t) \/ MCas(t) \/ SCmp(t) \/ SLoad(t)
AllDone == \A t \in Thr : pc[t] = "idle" /\ ip[t] > Len(Prog[t])
Next == (\E t \in Thr : Step(t)) \/ (AllDone /\ UNCHANGED vars)
Spec == Init /\ [][Next]_vars /\ \A t \in Thr : WF_vars(Step(t))

\* ---------------------------------------------------------------- properties
\* the history as a set of operations with call / return positions
OpsOf(h) ==
  {[id |-> <<h[c].t, h[c].i>>, op |-> Prog[h[c].t][h[c].i].op, a |-> Prog[h[c].t][h[c].i].a, b |-> Prog[h[c].t][h[c].i].b,
    res |-> h[r].res, call |-> c, ret |-> r] :
     <<c, r>> \in {p \in (1 .. Len(h)) \X (1 .. Len(h)) :
                     h[p[1]].k = "call" /\ h[p[2]].k = "ret" /\ h[p[1]].t = h[p[2]].t /\ h[p[1]].i = h[p[2]].i}}

RECURSIVE RootOf(_)
RootOf(i) == IF parent[i] = i THEN i ELSE RootOf(parent[i])

\* links only go to smaller ids, so a root is the least id of its tree (RepIsMin), and no cycle
ParentsDecrease == \A i \in DOMAIN parent : parent[i] <= i
\* at quiescence: same root iff connected by the unions performed, root = least id of the class,
\* and the whole history is linearizable
FinalState(strict) ==
  AllDone =>
    LET ops == OpsOf(hist)
        ids == 0 .. (cap - 1)
        fin == FinalRep(ops, ids)
    IN /\ \A i \in ids : RootOf(i) = fin[i]
       /\ IF strict THEN Linearizable(ops, ids) ELSE RelaxedLinearizable(ops, ids)
\* UFSafe: the partition, the representatives and every find / same_set / non-linking union are
\* linearizable; a linking union returns the child root and a member of the parent class.
UFSafe == ParentsDecrease /\ FinalState(FALSE)
\* StrictLin: additionally the parent returned by a linking union is the root of its class at the
\* linearization point (what the sequential union returns).
StrictLin == FinalState(TRUE)
Progress == <>AllDone
=============================================================================
