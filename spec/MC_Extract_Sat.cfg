SPECIFICATION Spec
CONSTANTS NClasses = 3
 MaxRows = 4
 Saturating = TRUE
 EmitReplay = FALSE
INVARIANT CostIsMinInv NoParentReplay
CHECK_DEADLOCK FALSE
