------------------------------- MODULE ConcVec -------------------------------
(* Design model of egglog-concurrency's ConcurrentVec (concurrency/src/concurrent_vec.rs)
   on top of an abstract readers/writer lock (the lock itself is ROLock.tla):

     push(v):  lock write_lock (a mutex: pushes are serialised)       PushLock
               idx := head                                             PushHead
               push_at: data.read(); slot idx in bounds -> write it    PushRLock ; PushWrite
                        else drop; data.lock(); resize to the next     PushGrow (a re-allocation: gen + 1)
                        power of two; drop; retry
               head := idx + 1 (Release)                               PushPublish ; PushUnlock
     read():   vp := head (Acquire) ; data.read() ; view [0, vp)       ReadHead ; ReadRLock ; ReadView

   cells hold 0 while uninitialised.                                          *)
EXTENDS Integers, Sequences, FiniteSets, TLC
CONSTANTS Pushers, Readers, Cap0, MaxPush, MaxRead

Thr == Pushers \cup Readers
VARIABLES cap, gen, cells, head, mtx, rd, wr, pc, idx, vp, rgen, np, nr, views
vars == <<cap, gen, cells, head, mtx, rd, wr, pc, idx, vp, rgen, np, nr, views>>

Val(t, k) == t * 10 + k
RECURSIVE Pow2(_)
Pow2(n) == IF n <= 1 THEN 1 ELSE 2 * Pow2((n + 1) \div 2)

Init ==
  /\ cap = Cap0 /\ gen = 0 /\ cells = [i \in 1 .. Cap0 |-> 0] /\ head = 0 /\ mtx = 0 /\ rd = {} /\ wr = 0
  /\ pc = [t \in Thr |-> "idle"] /\ idx = [t \in Thr |-> 0] /\ vp = [t \in Thr |-> 0] /\ rgen = [t \in Thr |-> 0]
  /\ np = [t \in Thr |-> 0] /\ nr = [t \in Thr |-> 0] /\ views = {}

Go(t, from, to) == pc[t] = from /\ pc' = [pc EXCEPT ![t] = to]

PushLock(t) == t \in Pushers /\ np[t] < MaxPush /\ mtx = 0 /\ Go(t, "idle", "phead") /\ mtx' = t
               /\ np' = [np EXCEPT ![t] = @ + 1]
               /\ UNCHANGED <<cap, gen, cells, head, rd, wr, idx, vp, rgen, nr, views>>
PushHead(t) == Go(t, "phead", "prlock") /\ idx' = [idx EXCEPT ![t] = head]
               /\ UNCHANGED <<cap, gen, cells, head, mtx, rd, wr, vp, rgen, np, nr, views>>
PushRLock(t) == wr = 0 /\ Go(t, "prlock", "ptry") /\ rd' = rd \cup {t}
               /\ UNCHANGED <<cap, gen, cells, head, mtx, wr, idx, vp, rgen, np, nr, views>>
PushWrite(t) == /\ pc[t] = "ptry" /\ idx[t] < cap
                /\ cells' = [cells EXCEPT ![idx[t] + 1] = Val(t, np[t])]
                /\ rd' = rd \ {t} /\ pc' = [pc EXCEPT ![t] = "ppub"]
                /\ UNCHANGED <<cap, gen, head, mtx, wr, idx, vp, rgen, np, nr, views>>
PushMiss(t) == /\ pc[t] = "ptry" /\ idx[t] >= cap
               /\ rd' = rd \ {t} /\ pc' = [pc EXCEPT ![t] = "pwlock"]
               /\ UNCHANGED <<cap, gen, cells, head, mtx, wr, idx, vp, rgen, np, nr, views>>
PushWLock(t) == rd = {} /\ wr = 0 /\ Go(t, "pwlock", "pgrow") /\ wr' = t
               /\ UNCHANGED <<cap, gen, cells, head, mtx, rd, idx, vp, rgen, np, nr, views>>
PushGrow(t) == /\ pc[t] = "pgrow"
               /\ IF idx[t] >= cap
                  THEN LET c2 == Pow2(idx[t] + 1) IN
                       cap' = c2 /\ gen' = gen + 1 /\ cells' = [i \in 1 .. c2 |-> IF i <= cap THEN cells[i] ELSE 0]
                  ELSE UNCHANGED <<cap, gen, cells>>
               /\ wr' = 0 /\ pc' = [pc EXCEPT ![t] = "prlock"]
               /\ UNCHANGED <<head, mtx, rd, idx, vp, rgen, np, nr, views>>
PushPublish(t) == Go(t, "ppub", "punlock") /\ head' = idx[t] + 1
               /\ UNCHANGED <<cap, gen, cells, mtx, rd, wr, idx, vp, rgen, np, nr, views>>
PushUnlock(t) == Go(t, "punlock", "idle") /\ mtx' = 0
               /\ UNCHANGED <<cap, gen, cells, head, rd, wr, idx, vp, rgen, np, nr, views>>

ReadHead(t) == t \in Readers /\ nr[t] < MaxRead /\ Go(t, "idle", "rrlock") /\ vp' = [vp EXCEPT ![t] = head]
               /\ nr' = [nr EXCEPT ![t] = @ + 1]
               /\ UNCHANGED <<cap, gen, cells, head, mtx, rd, wr, idx, rgen, np, views>>
ReadRLock(t) == wr = 0 /\ Go(t, "rrlock", "rview") /\ rd' = rd \cup {t} /\ rgen' = [rgen EXCEPT ![t] = gen]
               /\ UNCHANGED <<cap, gen, cells, head, mtx, wr, idx, vp, np, nr, views>>
ReadView(t) == Go(t, "rview", "idle") /\ rd' = rd \ {t}
               /\ views' = views \cup {SubSeq(cells, 1, vp[t])}
               /\ UNCHANGED <<cap, gen, cells, head, mtx, wr, idx, vp, rgen, np, nr>>

Step(t) == PushLock(t) \/ PushHead(t) \/ PushRLock(t) \/ PushWrite(t) \/ PushMiss(t) \/ PushWLock(t) \/ PushGrow(t)
           \/ PushPublish(t) \/ PushUnlock(t) \/ ReadHead(t) \/ ReadRLock(t) \/ ReadView(t)
AllDone == \A t \in Thr : pc[t] = "idle" /\ (t \in Pushers => np[t] = MaxPush) /\ (t \in Readers => nr[t] = MaxRead)
Next == (\E t \in Thr : Step(t)) \/ (AllDone /\ UNCHANGED vars)
Spec == Init /\ [][Next]_vars /\ \A t \in Thr : WF_vars(Step(t))

\* every cell below head is initialised; a reader's view lies inside the buffer it locked
PrefixInit == head <= cap /\ \A i \in 1 .. head : cells[i] # 0
ReaderSafe == \A t \in Readers : pc[t] = "rview" => (vp[t] <= cap /\ rgen[t] = gen /\ \A i \in 1 .. vp[t] : cells[i] # 0)
ViewsArePrefixes == \A v \in views : \A i \in 1 .. Len(v) : v[i] # 0 /\ (i <= head => v[i] = cells[i])
LockOK == (wr # 0 => rd = {})
FinalOK == AllDone => (head = Cardinality(Pushers) * MaxPush
                       /\ {cells[i] : i \in 1 .. head} = {Val(t, k) : t \in Pushers, k \in 1 .. MaxPush})
VecSafe == PrefixInit /\ ReaderSafe /\ ViewsArePrefixes /\ LockOK /\ FinalOK
Progress == <>AllDone
=============================================================================
