SPECIFICATION Spec
INVARIANT Emit Injective WellFormed
CHECK_DEADLOCK FALSE
