SPECIFICATION Spec
CONSTANTS
  N = 4
  Cap0 = 2
  Prog <- ProgD
INVARIANT UFSafe
PROPERTY Progress
