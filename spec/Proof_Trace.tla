----------------------------- MODULE Proof_Trace -----------------------------
(* C12, first clause: with proofs enabled, (prove facts) succeeds exactly when the facts, used as a rule
   body, match in the database (rule semantics: subsumed rows are not seen), and never panics.  Because
   prove checks the proof it extracted -- before and after simplification -- against the original program
   and fails if the checker rejects it, "succeeds when the facts match" also binds "the returned proof is
   accepted by the proof checker".

   Sessions run on EGraph::new_with_proofs(); the database is the specification's (EggAbs), evolved
   command by command exactly as in EggAbs_Trace, which this module extends; a (prove ..) step is logged
   without a dump (event "rawcmd", c.k = "prove") and judged here.                                        *)
EXTENDS EggAbs_Trace

VARIABLES base,   \* the database the session's facts alone generate (no rule has run): EggAbs over the non-run commands
          ung      \* the database generated when the rules that have a primitive guard (a cmp atom) never fire

IsProve == l <= Len(Rec) /\ Rec[l].e = "rawcmd" /\ Has(Rec[l], "c") /\ Has(Rec[l].c, "k") /\ Rec[l].c.k = "prove"

BaseAfter(ev) ==
  IF ev.e = "decl" THEN {}
  ELSE IF ev.e # "cmd" \/ ev.res # "ok" THEN base
  ELSE LET c == ev.c IN
       IF c.k = "ins" THEN CmdIns(base, c).rows
       ELSE IF c.k = "union" THEN (LET x == CmdUnion(base, c) IN IF x.ok THEN x.rows ELSE base)
       ELSE IF c.k = "set" THEN (LET x == CmdSet(base, c) IN IF x.ok THEN x.rows ELSE base)
       ELSE IF c.k = "subsume" THEN CmdSubsume(base, c).rows
       ELSE base

Guarded == {r \in 1 .. Len(prog.rules) : \E k \in 1 .. Len(prog.rules[r].body) : prog.rules[r].body[k].k = "cmp"}
UngAfter(ev) ==
  IF ev.e = "decl" THEN {}
  ELSE IF ev.e # "cmd" \/ ev.res # "ok" THEN ung
  ELSE LET c == ev.c IN
       IF c.k = "ins" THEN CmdIns(ung, c).rows
       ELSE IF c.k = "union" THEN (LET x == CmdUnion(ung, c) IN IF x.ok THEN x.rows ELSE ung)
       ELSE IF c.k = "set" THEN (LET x == CmdSet(ung, c) IN IF x.ok THEN x.rows ELSE ung)
       ELSE IF c.k = "subsume" THEN CmdSubsume(ung, c).rows
       ELSE IF c.k = "run" THEN (LET x == CmdRun(ung, c, active \ Guarded) IN IF x.ok THEN x.rows ELSE ung)
       ELSE ung

\* ev.pv (when present): verdict of the in-tree checker on the proof that (prove ..) extracts, against a reference
\* program installed with set_proof_checking_program: "orig" the session's own program, "nofacts" the program without
\* its top-level facts, "norules" without its rules ("acc" accepted / "rej" rejected / "setup-failed")
TProve ==
  /\ IsProve /\ l' = l + 1
  /\ LET ev == Rec[l]
         holds == Matches(rows, ev.c.facts, FALSE) # {}
         holdsBase == Matches(base, ev.c.facts, FALSE) # {}
         holdsUng == Matches(ung, ev.c.facts, FALSE) # {}
     IN /\ (ev.res = "panic") => Bad("panicked")
        /\ (~tainted /\ holds /\ ev.res = "err") => Bad("prove-failed-but-the-facts-match")
        /\ (~tainted /\ ~holds /\ ev.res = "ok") => Bad("prove-succeeded-but-the-facts-do-not-match")
        /\ (~tainted /\ holds /\ ev.res = "ok" /\ Has(ev, "pv")) =>
              /\ (ev.pv.orig = "rej") => Bad("checker-rejects-the-proof-against-the-original-program")
              /\ (ev.pv.nofacts = "acc") => Bad("checker-accepts-the-proof-against-a-program-without-its-facts")
              /\ (~holdsBase /\ ev.pv.norules = "acc") => Bad("checker-accepts-the-proof-against-a-program-without-its-rules")
              \* "guards": the reference program has every primitive guard of every rule negated
              /\ (Has(ev.pv, "guards") /\ ~holdsUng /\ ev.pv.guards = "acc") => Bad("checker-accepts-the-proof-with-negated-rule-guards")
  /\ UNCHANGED <<vars, tainted, declf, cur, other, cmpst, sch, prev, base, ung>>

PNext == (~IsProve /\ TraceNext /\ base' = BaseAfter(Rec[l]) /\ ung' = UngAfter(Rec[l])) \/ TProve
PSpec == TraceInit /\ base = {} /\ ung = {} /\ [][PNext]_<<vars, l, tainted, declf, cur, other, cmpst, sch, prev, base, ung>>
=============================================================================
