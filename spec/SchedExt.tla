------------------------------ MODULE SchedExt ------------------------------
(* Custom schedulers (src/scheduler.rs, C18) on top of the abstract semantics.

   step_rules_with_scheduler(rs) splits every rule r of the ruleset into a query
   rule (collects, semi-naively, the matches of the body projected on the head's
   free variables), a user decision (filter_matches: which of the collected +
   carried-over matches to fire, and whether to look for new matches next time)
   and an action rule (runs the head for the chosen matches).  The specification
   keeps, per rule:
       resid[r]    the matches offered but not chosen so far   (carried over)
       applied[r]  the matches ever chosen                      (history)
       seek[r]     the last answer of filter_matches (initially TRUE)
   over CLASS NAMES (least terms); after every command of the session the names
   are re-evaluated in the new database (ReNameV), which is what "interpreted
   modulo the equalities that hold when they are finally applied" means.

   One step, for the matches OFFERED and CHOSEN as observed (the policy is the
   user's; the specification does not choose):
     NoInvented   offered <= Proj(Matches(R, body_r, not subsumed)) + resid[r]
     Carried      resid[r] <= offered
     NoLoss       seek[r] => Proj(Matches(R, body_r)) <= offered + applied[r]
     Applied      R' = the database after running the head of r for exactly the
                  chosen matches (all heads against R, as in one iteration)     *)
EXTENDS Extract

\* ---- names -> terms -> values in another database
RECURSIVE ParseN(_, _), ParseArgs(_, _, _, _)
ParseN(nm, pos) ==
  IF nm[pos] = 0 THEN <<[i |-> nm[pos + 1]], pos + 2>>
  ELSE LET x == ParseArgs(nm, pos + 1, Len(Fn(nm[pos]).ins), <<>>) IN <<[f |-> nm[pos], a |-> x[1]], x[2]>>
ParseArgs(nm, pos, n, acc) ==
  IF n = 0 THEN <<acc, pos>>
  ELSE LET x == ParseN(nm, pos) IN ParseArgs(nm, x[2], n - 1, Append(acc, x[1]))

\* the value a class name / base value denotes in database R (<<>> if its term is not represented any more)
ReNameV(R, v) == IF v[1] <= 0 THEN v ELSE LookG(R, ParseN(v, 1)[1])
ReNameT(R, tup) == [i \in 1 .. Len(tup) |-> ReNameV(R, tup[i])]
Known(tup) == \A i \in 1 .. Len(tup) : tup[i] # <<>>
ReNameSet(R, S) == {t \in {ReNameT(R, x) : x \in S} : Known(t)}

\* ---- the matches of rule r projected on the head's free variables hv (a sequence of variable numbers)
Proj(s, hv) == [i \in 1 .. Len(hv) |-> s[hv[i]]]
ProjMatches(R, r, hv) == {Proj(s, hv) : s \in Matches(R, prog.rules[r].body, InclSub(r))}
SubOf(tup, hv) == [x \in {hv[i] : i \in 1 .. Len(hv)} |-> tup[CHOOSE i \in 1 .. Len(hv) : hv[i] = x]]

\* ---- scheduler bookkeeping: functions over rule indices (absent = never stepped)
Sch0 == [resid |-> [x \in {} |-> {}], applied |-> [x \in {} |-> {}], seek |-> [x \in {} |-> TRUE], ok |-> TRUE]
ResidOf(sch, r) == IF r \in DOMAIN sch.resid THEN sch.resid[r] ELSE {}
AppliedOf(sch, r) == IF r \in DOMAIN sch.applied THEN sch.applied[r] ELSE {}
SeekOf(sch, r) == IF r \in DOMAIN sch.seek THEN sch.seek[r] ELSE TRUE

ReNameSch(R, sch) ==
  [sch EXCEPT !.resid = [r \in DOMAIN sch.resid |-> ReNameSet(R, sch.resid[r])],
              !.applied = [r \in DOMAIN sch.applied |-> ReNameSet(R, sch.applied[r])]]

\* the database after running the heads for the chosen matches: todo = set of <<rule, substitution>>
StepResult(R, todo) ==
  LET acc == ExecAll(R, todo, EmptyAcc)
      R5 == ApplyAcc(R, acc)
  IN IF acc.panic \/ Poisoned(R5) THEN [rows |-> R, ok |-> FALSE] ELSE [rows |-> Canonize(R5), ok |-> TRUE]
=============================================================================
