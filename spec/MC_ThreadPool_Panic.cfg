SPECIFICATION Spec
CONSTANTS
  W = 1
  MaxTasks = 2
  MaxScopes = 2
  HelpDepth = 1
  MaxBackup = 2
  AllowPanic = TRUE
INVARIANTS Safety FinishedOK
PROPERTY Terminates
