SPECIFICATION MCSpec
CONSTANTS Keys = {0, 1}
 Vals = {1, 2}
 MaxTs = 2
 KeepTs = TRUE
 Thresh = 1
VIEW View
CONSTRAINT PendBound
INVARIANT HashConsistent LookupIsModel ScanIsModel SortedByTs StaleBounded
PROPERTY VersionTracksContent StagedIsInvisible
CHECK_DEADLOCK FALSE
