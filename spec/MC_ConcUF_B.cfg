SPECIFICATION Spec
CONSTANTS
  N = 4
  Cap0 = 2
  Prog <- ProgB
INVARIANT UFSafe
PROPERTY Progress
