SPECIFICATION Spec
CONSTANTS
  N = 4
  Cap0 = 2
  Prog <- ProgA
INVARIANT UFSafe
PROPERTY Progress
