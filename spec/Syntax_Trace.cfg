SPECIFICATION TraceSpec
CHECK_DEADLOCK FALSE
