--------------------------- MODULE MC_ThreadPool ---------------------------
EXTENDS ThreadPool
\* TLC-only helpers
FinishedOK == Finished => (\A s \in Scp : sst[s] # "open") /\ queue = <<>>
=============================================================================
