SPECIFICATION PSpec
CHECK_DEADLOCK FALSE
