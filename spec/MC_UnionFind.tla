--------------------------- MODULE MC_UnionFind ---------------------------
(* Exhaustive configuration of UnionFind, and generator of the transition
   cover: `hist` (the calls so far) is excluded from the VIEW, so TLC expands
   every distinct state once, along a shortest prefix, and prints one REPLAY
   line per transition.                                                      *)
EXTENDS UnionFind, TLC, Json

VARIABLE hist

MCInit == Init /\ hist = <<>>

Emit(cmd) == /\ hist' = Append(hist, cmd)
             /\ PrintT(<<"REPLAY", ToJson(Append(hist, cmd))>>)

MCUnion     == \E a, b \in Ids : Union(a, b) /\ Emit([op |-> "union", a |-> a, b |-> b])
MCFind      == \E a \in Ids : Find(a) /\ Emit([op |-> "find", a |-> a, b |-> 0])
MCFindNaive == \E a \in Ids : FindNaive(a) /\ Emit([op |-> "find_naive", a |-> a, b |-> 0])
MCReset     == Reset /\ Emit([op |-> "reset", a |-> 0, b |-> 0])

MCNext == MCUnion \/ MCFind \/ MCFindNaive \/ MCReset

MCSpec == MCInit /\ [][MCNext]_<<vars, hist>>

View == <<parent, len, cls>>
=============================================================================
