---------------------------- MODULE EggAbs_Trace ----------------------------
(* Trace validation of recorded egglog sessions against EggAbs.

   One ndjson line per step:
     {"e":"decl","prog":{funcs,rules,rsets},"active":[rule indices]}      new session
     {"e":"cmd","c":{...command as data...},"res":"ok"|"err"|"panic",
      "tabs":[[ {a:[[tag,x]..], o:[tag,x], s:0|1} ..] per function],
      "canon":[[id, canonical id]..]}
   The harness logs RAW state only (raw e-class ids, the canonical-id map); all
   interpretation happens here: AbsOf names every class by its least term and the
   result is compared with the state EggAbs computes from the previous state and
   the command.  A failed comparison does not stop validation: a BAD line is
   printed (one per failed predicate), the model re-synchronises on the observed
   state and the rest of the trace is still checked.                             *)
EXTENDS EggAbs, Json, IOUtils

Rec == ndJsonDeserialize(IOEnv.TRACE)

VARIABLES l,
          tainted   \* a rule run has failed earlier in this session (see Judge)

\* ---------------------------------------------------------------- AbsOf
CanonFn(ev) == [p \in {ev.canon[i] : i \in 1 .. Len(ev.canon)} |-> p[2]]
CanonOf(ev, id) ==
  LET hit == {ev.canon[i] : i \in {j \in 1 .. Len(ev.canon) : ev.canon[j][1] = id}} IN
  IF hit = {} THEN id ELSE (CHOOSE p \in hit : TRUE)[2]

RawVal(ev, v) ==
  IF v[1] = 0 THEN <<0, v[2]>>
  ELSE IF v[1] = 1 THEN <<-2, CanonOf(ev, v[2])>>
  ELSE <<-1>> \o v[2]                                  \* set of i64, logged ascending

RawRowsOf(ev, f) ==
  {Row(f, [i \in 1 .. Len(ev.tabs[f][j].a) |-> RawVal(ev, ev.tabs[f][j].a[i])],
       RawVal(ev, ev.tabs[f][j].o), ev.tabs[f][j].s = 1) : j \in 1 .. Len(ev.tabs[f])}

RawRows(ev) == UNION {RawRowsOf(ev, f) : f \in 1 .. Len(ev.tabs)}

AbsOf(ev) == Canonize(RawRows(ev))

\* ---- invariants of the raw state (C04): evaluated on what the engine exposes
RawKeysUnique(ev) ==
  \A f \in 1 .. Len(ev.tabs) :
    Cardinality({ev.tabs[f][j].a : j \in 1 .. Len(ev.tabs[f])}) = Len(ev.tabs[f])
RawIdsCanonical(ev) == \A i \in 1 .. Len(ev.canon) : ev.canon[i][1] = ev.canon[i][2]
\* after canonicalisation no two rows share a key (congruent rows were merged)
RawCongruenceClosed(ev) == Functional(RawRows(ev))

\* ---------------------------------------------------------------- steps
Expect(c) ==
  IF c.k = "ins" THEN CmdIns(rows, c)
  ELSE IF c.k = "union" THEN CmdUnion(rows, c)
  ELSE IF c.k = "set" THEN CmdSet(rows, c)
  ELSE IF c.k = "subsume" THEN CmdSubsume(rows, c)
  ELSE IF c.k = "delete" THEN CmdDelete(rows, c)
  ELSE IF c.k = "run" THEN CmdRun(rows, c, active)
  ELSE IF c.k = "check" THEN CmdCheck(rows, c)
  ELSE IF c.k = "pop" THEN [rows |-> IF Len(stack) > 0 THEN stack[Len(stack)][1] ELSE rows, ok |-> Len(stack) > 0]
  ELSE [rows |-> rows, ok |-> (c.k # "bad")]           \* rule, push, bad, noop

Bad(code) == PrintT(<<"BAD", l, code>>)

\* every failed predicate prints one BAD line; always TRUE.
\* After a rule run that failed at run time the engine has consumed the matches of
\* the failed iteration (their rules' last-run timestamps advanced) without
\* applying all of them, and the specification does not predict which were
\* applied: from then on (`tainted`) the outcome of later RUN commands is only
\* required to be consistent (raw invariants, no panic), not equal to the naive
\* re-evaluation; all other commands are still checked exactly.
Exact(ev) == ~(tainted /\ ev.c.k = "run")
Judge(ev, exp, obs) ==
  /\ (ev.res = "panic") => Bad("panicked")
  /\ (~RawKeysUnique(ev)) => Bad("raw-duplicate-key")
  /\ (~RawIdsCanonical(ev)) => Bad("raw-noncanonical-id")
  /\ (RawIdsCanonical(ev) /\ ~RawCongruenceClosed(ev)) => Bad("raw-congruence-open")
  /\ (Exact(ev) /\ exp.ok /\ ev.res = "err") => Bad(IF ev.c.k = "check" THEN "check-failed-but-holds" ELSE "unexpected-error")
  /\ (Exact(ev) /\ ~exp.ok /\ ev.res = "ok") => Bad(IF ev.c.k = "check" THEN "check-passed-but-fails" ELSE "missing-error")
  /\ (Exact(ev) /\ exp.ok /\ ev.res = "ok" /\ ~IsWild(exp.rows) /\ obs # exp.rows) =>
        (Bad("state-mismatch") /\ PrintT(<<"DIFF", l, ToJson([missing |-> exp.rows \ obs, extra |-> obs \ exp.rows])>>))
  /\ (~exp.ok /\ ev.c.k \in {"check", "bad"} /\ obs # rows) => Bad("state-changed-by-rejected-command")
  /\ (Exact(ev) /\ ev.res = "ok" /\ ev.c.k = "run" /\ Has(ev, "upd") /\ ev.upd # (IF exp.upd THEN 1 ELSE 0) /\ exp.ok) => Bad("updated-flag")

TDecl ==
  /\ l <= Len(Rec) /\ Rec[l].e = "decl" /\ l' = l + 1
  /\ prog' = Rec[l].prog
  /\ active' = {Rec[l].active[i] : i \in 1 .. Len(Rec[l].active)}
  /\ rows' = {} /\ stack' = <<>> /\ res' = "ok" /\ tainted' = FALSE

TCmd ==
  /\ l <= Len(Rec) /\ Rec[l].e = "cmd" /\ l' = l + 1
  /\ LET ev == Rec[l]
         c == ev.c
         exp == Expect(c)
         obs == AbsOf(ev)
     IN /\ Judge(ev, exp, obs)
        /\ res' = ev.res
        /\ prog' = prog
        /\ tainted' = (tainted \/ (c.k = "run" /\ ev.res # "ok"))
        /\ IF c.k = "pop" /\ ev.res = "ok" /\ Len(stack) > 0
           THEN /\ rows' = obs
                /\ active' = stack[Len(stack)][2]
                /\ stack' = SubSeq(stack, 1, Len(stack) - 1)
           ELSE /\ rows' = obs                          \* re-synchronise on the observation
                /\ active' = IF c.k = "rule" /\ ev.res = "ok" THEN active \cup {c.r} ELSE active
                /\ stack' = IF c.k = "push" /\ ev.res = "ok" THEN Append(stack, <<rows, active>>) ELSE stack

TraceInit == /\ l = 1 /\ prog = [funcs |-> <<>>, rules |-> <<>>, rsets |-> <<>>]
             /\ rows = {} /\ active = {} /\ stack = <<>> /\ res = "ok" /\ tainted = FALSE

TraceNext == TDecl \/ TCmd
TraceSpec == TraceInit /\ [][TraceNext]_<<vars, l, tainted>>
=============================================================================
