---------------------------- MODULE EggAbs_Trace ----------------------------
(* Trace validation of recorded egglog sessions against EggAbs.

   One ndjson line per step:
     {"e":"decl","prog":{funcs,rules,rsets},"active":[rule indices]}      new session
     {"e":"cmd","c":{...command as data...},"res":"ok"|"err"|"panic",
      "tabs":[[ {a:[[tag,x]..], o:[tag,x], s:0|1} ..] per function],
      "canon":[[id, canonical id]..]}
   The harness logs RAW state only (raw e-class ids, the canonical-id map); all
   interpretation happens here: AbsOf names every class by its least term and the
   result is compared with the state EggAbs computes from the previous state and
   the command.  A failed comparison does not stop validation: a BAD line is
   printed (one per failed predicate), the model re-synchronises on the observed
   state and the rest of the trace is still checked.                             *)
EXTENDS SchedExt, Json, IOUtils

Rec == ndJsonDeserialize(IOEnv.TRACE)

VARIABLES l,
          tainted,  \* a rule run has failed earlier in this session (see Judge)
          declf,    \* indices of the functions of prog.funcs declared right now
          cur,      \* number of the e-graph (slot) the EggAbs variables describe
          other,    \* the other slot (after a clone): [rows, active, stack, declf, tainted] or [none |-> TRUE]
          cmpst,    \* compare databases (FALSE for encodings whose tables are not the user's tables)
          sch,      \* custom-scheduler bookkeeping of the current e-graph (SchedExt)
          prev      \* the previous cmd event of this session (the raw pre-state of the next command)

Bad(code) == PrintT(<<"BAD", l, code>>)

\* ---------------------------------------------------------------- AbsOf
CanonFn(ev) == [p \in {ev.canon[i] : i \in 1 .. Len(ev.canon)} |-> p[2]]
CanonOf(ev, id) ==
  LET hit == {ev.canon[i] : i \in {j \in 1 .. Len(ev.canon) : ev.canon[j][1] = id}}
      fhit == IF Has(ev, "fcanon") THEN {ev.fcanon[i] : i \in {j \in 1 .. Len(ev.fcanon) : ev.fcanon[j][1] = id}} ELSE {}
  IN IF hit # {} THEN (CHOOSE p \in hit : TRUE)[2]
     ELSE IF fhit # {} THEN (CHOOSE p \in fhit : TRUE)[2] ELSE id

ContOf(ev, cid) == CHOOSE c \in {ev.cont[i] : i \in 1 .. Len(ev.cont)} : c.id = cid
RECURSIVE RawVal(_, _)
RawVal(ev, v) ==
  IF v[1] = 0 THEN <<0, v[2]>>
  ELSE IF v[1] = 1 THEN <<-2, CanonOf(ev, v[2])>>
  ELSE IF v[1] = 3 THEN LET c == ContOf(ev, v[2]) IN          \* container of e-classes: by its logged contents
                        MkCont(c.k, [i \in 1 .. Len(c.e) |-> RawVal(ev, c.e[i])])
  ELSE <<-1>> \o v[2]                                  \* set of i64, logged ascending

RawRowsOf(ev, f) ==
  {Row(f, [i \in 1 .. Len(ev.tabs[f][j].a) |-> RawVal(ev, ev.tabs[f][j].a[i])],
       RawVal(ev, ev.tabs[f][j].o), ev.tabs[f][j].s = 1) : j \in 1 .. Len(ev.tabs[f])}

RawRows(ev) == UNION {RawRowsOf(ev, f) : f \in 1 .. Len(ev.tabs)}

AbsOf(ev) == Canonize(RawRows(ev))

\* ---- invariants of the raw state (C04): evaluated on what the engine exposes
RawKeysUnique(ev) ==
  \A f \in 1 .. Len(ev.tabs) :
    Cardinality({ev.tabs[f][j].a : j \in 1 .. Len(ev.tabs[f])}) = Len(ev.tabs[f])
RawIdsCanonical(ev) == \A i \in 1 .. Len(ev.canon) : ev.canon[i][1] = ev.canon[i][2]
\* equal container contents (modulo the recorded equalities) share one container id
RawContainersHashConsed(ev) ==
  (~Has(ev, "cont")) \/
  Cardinality({RawVal(ev, <<3, ev.cont[i].id>>) : i \in 1 .. Len(ev.cont)}) = Len(ev.cont)
\* after canonicalisation no two rows share a key (congruent rows were merged)
RawCongruenceClosed(ev) == Functional(RawRows(ev))

\* ---------------------------------------------------------------- steps
\* w: the e-graph the command is issued on: [rows, active, stack, declf, tainted]
Me == [rows |-> rows, active |-> active, stack |-> stack, declf |-> declf, tainted |-> tainted]

\* ---------------------------------------------------------------- custom scheduler steps (C18)
\* ev.sched = << [r |-> rule index, vars |-> <<head variable numbers>>, offered |-> << <<raw value..>> .. >>,
\*               chosen |-> <<0-based indices>>, seek |-> 0/1] .. >>     (recorded by the instrumented scheduler)
\* raw ids are named in the PRE-state: the database logged by the previous command
PreNames == IF Has(prev, "tabs") THEN LeastNames(RawRows(prev)) ELSE [x \in {} |-> <<>>]
PreNameOf(nm, v) ==
  IF v[1] = 0 THEN <<0, v[2]>>
  ELSE LET id == <<-2, CanonOf(prev, v[2])>> IN IF id \in DOMAIN nm /\ nm[id] # <<>> THEN nm[id] ELSE <<>>
OfferedOf(nm, q) == [i \in 1 .. Len(q.offered) |-> [j \in 1 .. Len(q.offered[i]) |-> PreNameOf(nm, q.offered[i][j])]]
ChosenIdx(q) == {q.chosen[i] + 1 : i \in 1 .. Len(q.chosen)}
SStepTodo(ev) ==
  LET nm == PreNames IN
  UNION {LET q == ev.sched[k]
             off == OfferedOf(nm, q)
         IN {<<q.r, SubOf(off[i], q.vars)>> : i \in ChosenIdx(q) \cap (1 .. Len(off))} : k \in 1 .. Len(ev.sched)}
SStepExpect(w, ev) == StepResult(w.rows, SStepTodo(ev))

\* the four obligations of one step, per rule (evaluated on the pre-state w.rows)
JudgeSStep(w, ev) ==
  LET nm == PreNames IN
  \A k \in 1 .. Len(ev.sched) :
    LET q == ev.sched[k]
        off == OfferedOf(nm, q)
        O == {off[i] : i \in 1 .. Len(off)}
        P == ProjMatches(w.rows, q.r, q.vars)
        rsd == ResidOf(sch, q.r)
    IN /\ (\E t \in O : ~Known(t)) => Bad("sched-offered-an-id-unknown-to-the-database")
       /\ (\E t \in O : Known(t) /\ t \notin P \cup rsd) => Bad("sched-offered-a-match-that-does-not-satisfy-the-body")
       /\ (rsd \ O # {}) => Bad("sched-unchosen-match-was-dropped")
       /\ (SeekOf(sch, q.r) /\ P \ (O \cup AppliedOf(sch, q.r)) # {}) => Bad("sched-match-never-offered")
       /\ (\E i \in ChosenIdx(q) : i > Len(off)) => Bad("sched-harness-chose-out-of-range")

\* bookkeeping after the step (names of the pre-state; renamed with every command below)
SchAfterStep(ev) ==
  LET nm == PreNames
      upd(f, r, v) == (r :> v) @@ f
      RECURSIVE Fold(_, _)
      Fold(k, s) ==
        IF k > Len(ev.sched) THEN s
        ELSE LET q == ev.sched[k]
                 off == OfferedOf(nm, q)
                 ch == ChosenIdx(q)
             IN Fold(k + 1, [s EXCEPT !.resid = upd(@, q.r, {off[i] : i \in (1 .. Len(off)) \ ch}),
                                      !.applied = upd(@, q.r, AppliedOf(s, q.r) \cup {off[i] : i \in ch \cap (1 .. Len(off))}),
                                      !.seek = upd(@, q.r, q.seek = 1)])
  IN Fold(1, sch)

Expect(w, c, ev) ==
  IF c.k = "ins" THEN CmdIns(w.rows, c)
  ELSE IF c.k = "load" THEN CmdLoad(w.rows, c)
  ELSE IF c.k = "union" THEN CmdUnion(w.rows, c)
  ELSE IF c.k = "set" THEN CmdSet(w.rows, c)
  ELSE IF c.k = "subsume" THEN CmdSubsume(w.rows, c)
  ELSE IF c.k = "delete" THEN CmdDelete(w.rows, c)
  ELSE IF c.k = "run" THEN CmdRun(w.rows, c, w.active)
  ELSE IF c.k = "check" THEN CmdCheck(w.rows, c)
  ELSE IF c.k = "extract" THEN      \* the argument is evaluated like an action (created if absent)
    LET x == CmdIns(w.rows, c)
        cls == LookG(x.rows, c.t)
        mc == MinCost(x.rows)
    IN [rows |-> x.rows, ok |-> (c.n > 0 \/ (cls \in DOMAIN mc /\ mc[cls] # Undef))]   \* variants of a class without a term: empty list
  ELSE IF c.k = "sstep" THEN SStepExpect(w, ev)
  ELSE IF c.k = "pop" THEN [rows |-> IF Len(w.stack) > 0 THEN w.stack[Len(w.stack)].rows ELSE w.rows, ok |-> Len(w.stack) > 0]
  ELSE IF c.k = "rule" THEN [rows |-> w.rows, ok |-> c.r \notin w.active]
  ELSE IF c.k = "fdecl" THEN [rows |-> w.rows, ok |-> c.f \notin w.declf]
  ELSE IF c.k = "size" THEN [rows |-> w.rows, ok |-> c.f \in w.declf]
  ELSE IF c.k = "probe" THEN [rows |-> w.rows, ok |-> c.ok = 1]
  ELSE [rows |-> w.rows, ok |-> (c.k # "bad")]           \* push, bad, noop

\* the e-graph after the command (the observed database is adopted: re-synchronisation)
After(w, c, ev, obs) ==
  IF ev.res # "ok" THEN [w EXCEPT !.rows = obs, !.tainted = w.tainted \/ c.k \in {"run", "sstep"}]
  ELSE IF c.k = "pop" /\ Len(w.stack) > 0 THEN
    LET top == w.stack[Len(w.stack)] IN
    [rows |-> obs, active |-> top.active, stack |-> SubSeq(w.stack, 1, Len(w.stack) - 1), declf |-> top.declf, tainted |-> top.tainted]
  ELSE IF c.k = "push" THEN [w EXCEPT !.rows = obs, !.stack = Append(w.stack, [rows |-> w.rows, active |-> w.active, declf |-> w.declf, tainted |-> w.tainted])]
  ELSE IF c.k = "rule" THEN [w EXCEPT !.rows = obs, !.active = w.active \cup {c.r}]
  ELSE IF c.k = "fdecl" THEN [w EXCEPT !.rows = obs, !.declf = w.declf \cup {c.f}]
  ELSE [w EXCEPT !.rows = obs]


\* C07: what a successful (extract t [n]) returned, against the reference MinCost
OutOf(ev, kind) == LET hit == {ev.outs[i] : i \in {j \in 1 .. Len(ev.outs) : ev.outs[j].k = kind}} IN
                   IF hit = {} THEN [none |-> TRUE] ELSE CHOOSE o \in hit : TRUE
JudgeExtract(ev, exp) ==
  LET c == ev.c
      R == exp.rows
      cls == LookG(R, c.t)
      mcAll == MinCost(R)
      mc == mcAll[cls]
      best == OutOf(ev, "extract")
      vout == OutOf(ev, "variants")
  IN /\ (c.n = 0 /\ Has(best, "none")) => Bad("extract-no-output")
     /\ (c.n = 0 /\ ~Has(best, "none")) =>
          LET e == EvalT(R, best.term) IN
          /\ (best.costn > mc) => Bad("extract-cost-not-minimal")
          /\ (best.costn < mc) => Bad("extract-cost-below-minimum")
          /\ (e.v # cls) => Bad("extract-term-not-in-class")
          /\ (e.v = cls /\ ~e.ok) => Bad("extract-uses-subsumed-or-unextractable-row")
          /\ (e.v = cls /\ e.cost # best.costn) => Bad("extract-term-cost-differs-from-reported")
     /\ (c.n > 0 /\ Has(vout, "none")) => Bad("extract-no-output")
     /\ (c.n > 0 /\ ~Has(vout, "none")) =>
          LET es == [k \in 1 .. Len(vout.terms) |-> EvalT(R, vout.terms[k])]
              nusable == Cardinality({r \in R : Usable(r) /\ r.o = cls /\ RowCost(mcAll, r) # Undef})
          IN /\ (\E k \in 1 .. Len(es) : es[k].v # cls) => Bad("variant-not-in-class")
             /\ (\E k \in 1 .. Len(es) : es[k].v = cls /\ ~es[k].ok) => Bad("variant-uses-subsumed-or-unextractable-row")
             /\ (\E j, k \in 1 .. Len(es) : j < k /\ es[j].root = es[k].root) => Bad("variants-share-a-root-enode")
             /\ (Len(es) # (IF c.n < nusable THEN c.n ELSE nusable)) => Bad("variant-count")

\* every failed predicate prints one BAD line; always TRUE.
\* After a rule run that failed at run time the engine has consumed the matches of
\* the failed iteration (their rules' last-run timestamps advanced) without
\* applying all of them, and the specification does not predict which were
\* applied: from then on (`tainted`) the outcome of later RUN commands is only
\* required to be consistent (raw invariants, no panic), not equal to the naive
\* re-evaluation; all other commands are still checked exactly.
Judge(w, ev, exp, obs) ==
  LET exact == ~(w.tainted /\ ev.c.k \in {"run", "sstep"}) /\ ~(ev.c.k = "sstep" /\ ~sch.ok) IN
  /\ (ev.res = "panic") => Bad("panicked")
  /\ (cmpst /\ ~RawKeysUnique(ev)) => Bad("raw-duplicate-key")
  /\ (cmpst /\ ~RawIdsCanonical(ev)) => Bad("raw-noncanonical-id")
  /\ (cmpst /\ RawIdsCanonical(ev) /\ ~RawCongruenceClosed(ev)) => Bad("raw-congruence-open")
  /\ (cmpst /\ RawIdsCanonical(ev) /\ ~RawContainersHashConsed(ev)) => Bad("raw-containers-not-hash-consed")
  /\ (exact /\ exp.ok /\ ev.res = "err") => Bad(IF ev.c.k = "check" THEN "check-failed-but-holds" ELSE "unexpected-error")
  /\ (exact /\ ~exp.ok /\ ev.res = "ok") => Bad(IF ev.c.k = "check" THEN "check-passed-but-fails" ELSE "missing-error")
  /\ (cmpst /\ exact /\ exp.ok /\ ev.res = "ok" /\ ~IsWild(exp.rows) /\ obs # exp.rows) =>
        (Bad("state-mismatch") /\ PrintT(<<"DIFF", l, ToJson([missing |-> exp.rows \ obs, extra |-> obs \ exp.rows])>>))
  /\ (cmpst /\ ~exp.ok /\ ev.c.k \in {"check", "bad", "probe", "rule", "fdecl", "pop"} /\ obs # w.rows) => Bad("state-changed-by-rejected-command")
  /\ (exact /\ ev.c.k = "extract" /\ exp.ok /\ ev.res = "ok") => JudgeExtract(ev, exp)
  /\ (exact /\ ev.c.k = "size" /\ exp.ok /\ ev.res = "ok") =>
        LET o == OutOf(ev, "size") IN
        /\ Has(o, "none") => Bad("size-no-output")
        /\ (~Has(o, "none") /\ o.n # Cardinality({r \in exp.rows : r.f = ev.c.f})) => Bad("table-size-differs")
  /\ (cmpst /\ ev.c.k = "sstep" /\ sch.ok /\ ~w.tainted /\ Has(ev, "sched")) => JudgeSStep(w, ev)
  /\ (cmpst /\ exact /\ ev.res = "ok" /\ ev.c.k = "run" /\ Has(ev, "upd") /\ exp.ok /\ ev.upd # (IF exp.upd THEN 1 ELSE 0)) => Bad("updated-flag")

NoOther == [none |-> TRUE]

TDecl ==
  /\ l <= Len(Rec) /\ Rec[l].e = "decl" /\ l' = l + 1
  /\ prog' = Rec[l].prog
  /\ active' = {Rec[l].active[i] : i \in 1 .. Len(Rec[l].active)}
  /\ declf' = (IF Has(Rec[l], "declared") THEN {Rec[l].declared[i] : i \in 1 .. Len(Rec[l].declared)}
               ELSE 1 .. Len(Rec[l].prog.funcs))
  /\ cmpst' = (IF Has(Rec[l], "cmp") THEN Rec[l].cmp = 1 ELSE TRUE)
  /\ rows' = {} /\ stack' = <<>> /\ res' = "ok" /\ tainted' = FALSE /\ cur' = 0 /\ other' = NoOther
  /\ sch' = Sch0 /\ prev' = [none |-> TRUE]

\* the harness cloned the current e-graph into the other slot
TClone ==
  /\ l <= Len(Rec) /\ Rec[l].e = "clone" /\ l' = l + 1
  /\ other' = Me
  /\ UNCHANGED <<vars, tainted, declf, cur, cmpst, sch, prev>>

TCmd ==
  /\ l <= Len(Rec) /\ Rec[l].e = "cmd" /\ l' = l + 1
  /\ LET ev == Rec[l]
         c == ev.c
         slot == IF Has(ev, "slot") THEN ev.slot ELSE cur
         w == IF slot = cur THEN Me ELSE other           \* the e-graph this command runs on
         idle == IF slot = cur THEN other ELSE Me          \* the one that must not notice
         exp == Expect(w, c, ev)
         obs == IF cmpst THEN AbsOf(ev) ELSE exp.rows
         w2 == After(w, c, ev, obs)
     IN /\ Judge(w, ev, exp, obs)
        \* history marker used to classify later divergences of the encoded treatments (C11)
        /\ (c.k = "subsume" /\ LET ea == EvalGArgs(w.rows, c.a, 1, <<>>) IN RowsAt(ea[1], c.f, ea[2]) = {})
              => PrintT(<<"NOTE", l, "subsume-created-the-row">>)
        /\ (cmpst /\ Has(ev, "otabs") /\ ~Has(idle, "none")
              /\ Canonize(RawRows([tabs |-> ev.otabs, canon |-> ev.ocanon, cont |-> ev.ocont])) # idle.rows) => Bad("clone-interference")
        /\ res' = ev.res /\ prog' = prog /\ cmpst' = cmpst /\ cur' = slot /\ other' = idle
        /\ rows' = w2.rows /\ active' = w2.active /\ stack' = w2.stack /\ declf' = w2.declf /\ tainted' = w2.tainted
        /\ prev' = ev
        /\ sch' = IF ~cmpst \/ (DOMAIN sch.resid = {} /\ c.k # "sstep") THEN sch
                  ELSE IF c.k = "sstep" /\ (ev.res # "ok" \/ ~Has(ev, "sched")) THEN [sch EXCEPT !.ok = FALSE]
                  ELSE ReNameSch(w2.rows, IF c.k = "sstep" THEN SchAfterStep(ev) ELSE sch)

\* the harness could not dump the state after a command (the dump itself panicked)
TAbort ==
  /\ l <= Len(Rec) /\ Rec[l].e = "abort" /\ l' = l + 1
  /\ Bad("state-unreadable-after-command")
  /\ UNCHANGED <<vars, tainted, declf, cur, other, cmpst, sch, prev>>

TraceInit == /\ l = 1 /\ prog = [funcs |-> <<>>, rules |-> <<>>, rsets |-> <<>>]
             /\ rows = {} /\ active = {} /\ stack = <<>> /\ res = "ok" /\ tainted = FALSE
             /\ declf = {} /\ cur = 0 /\ other = NoOther /\ cmpst = TRUE /\ sch = Sch0 /\ prev = [none |-> TRUE]

\* Large databases (thousands of rows): only the raw invariants of C04 are evaluated, in
\* linear / n log n time (no least-term renaming): every logged id canonical, keys unique,
\* equal container contents share one id.  Events without a dump are skipped.
RawContentsUnique(ev) ==
  (~Has(ev, "cont")) \/ Cardinality({<<ev.cont[i].k, ev.cont[i].e>> : i \in 1 .. Len(ev.cont)}) = Len(ev.cont)
TRaw ==
  /\ l <= Len(Rec) /\ Rec[l].e = "rawcmd" /\ l' = l + 1
  /\ LET ev == Rec[l] IN
       /\ (ev.res = "panic") => Bad("panicked")
       /\ (Has(ev, "expect") /\ ev.res # ev.expect) => Bad("scale-unexpected-outcome")
       /\ Has(ev, "tabs") =>
            /\ (~RawIdsCanonical(ev)) => Bad("raw-noncanonical-id")
            /\ (~RawKeysUnique(ev)) => Bad("raw-duplicate-key")
            /\ (RawIdsCanonical(ev) /\ ~RawContentsUnique(ev)) => Bad("raw-containers-not-hash-consed")
  /\ UNCHANGED <<vars, tainted, declf, cur, other, cmpst, sch, prev>>

TraceNext == TDecl \/ TCmd \/ TClone \/ TAbort \/ TRaw
TraceSpec == TraceInit /\ [][TraceNext]_<<vars, l, tainted, declf, cur, other, cmpst, sch, prev>>
=============================================================================
