---------------------------- MODULE PoolCounters ----------------------------
(* The packed (expected, completed) counter of a thread-pool scope
   (concurrency/src/threadpool/mod.rs: AtomicCounts) as pure operators, shared
   by the design model (ThreadPool.tla) and the trace specification
   (Conc_Trace.tla).  A counter value is a pair <<expected, completed>>.        *)
EXTENDS Integers, Sequences, FiniteSets

CInit == <<1, 0>>                        \* with_root_callback: the root callback is expected
CExpect(c) == <<c[1] + 1, c[2]>>         \* expect_one (CAS loop)
CComplete(c) == <<c[1], c[2] + 1>>       \* complete_one (fetch_add 1)
CIsLast(prev) == prev[2] + 1 = prev[1]   \* the completion that makes completed = expected signals `done`
CLive(c) == c[2] < c[1]                  \* the scope still expects work: its state may be touched

(* A multiset of logged read-modify-write operations on one counter, each with
   the value it observed: ops is a set of records [op |-> "e" | "c", prev |-> <<e, c>>].
   Because every operation changes the value, the observed values determine the
   order.  The history is well formed iff it is a chain from CInit in which every
   operation found the scope live, and exactly the last one completes it.        *)
RECURSIVE ChainFrom(_, _)
ChainFrom(c, ops) ==
  IF ops = {} THEN ~CLive(c)
  ELSE /\ CLive(c)
       /\ LET nxt == {o \in ops : o.prev = c} IN
          /\ Cardinality(nxt) = 1
          /\ LET o == CHOOSE x \in nxt : TRUE IN
             ChainFrom(IF o.op = "e" THEN CExpect(c) ELSE CComplete(c), ops \ {o})
ChainOK(ops) == ChainFrom(CInit, ops)
=============================================================================
