---------------------------- MODULE Syntax_Trace ----------------------------
(* Trace validation for C15: for every test tree the harness feeds the specified text to the real
   parser, prints the resulting command with the real printer, splits that text into tokens, parses
   it again and prints again.  Required: the specified text is accepted; the printed tokens equal
   the specification's tokens for the tree (so neither the parser nor the printer drops or alters
   anything, alone or together); the printed text parses; printing is idempotent.              *)
EXTENDS Syntax, Json, IOUtils
Rec == ndJsonDeserialize(IOEnv.TRACE)
VARIABLE l
Bad(code) == PrintT(<<"BAD", l, code>>)
TStep ==
  /\ l <= Len(Rec) /\ l' = l + 1
  /\ LET ev == Rec[l]
         want == Tokens(ev.ast)
     IN /\ (ev.res1 = "panic" \/ ev.res2 = "panic") => Bad("panicked")
        /\ (ev.res1 = "err") => Bad("specified-text-rejected-by-the-parser")
        /\ (ev.res1 = "ok" /\ ev.tok2 # want /\ ev.tok2 = TokensW(ev.ast)) => Bad("printed-with-an-extra-seq-wrapper")
        /\ (ev.res1 = "ok" /\ ev.tok2 # want /\ ev.tok2 # TokensW(ev.ast)) => Bad("printed-tokens-differ-from-the-specified-printing")
        /\ (ev.res1 = "ok" /\ ev.res2 = "err") => Bad("printed-text-does-not-parse")
        /\ (ev.res1 = "ok" /\ ev.res2 = "ok" /\ ev.tok3 # ev.tok2) =>
              Bad(IF ev.tok2 # want /\ ev.tok2 = TokensW(ev.ast) THEN "reprinting-adds-another-seq-wrapper" ELSE "printing-is-not-idempotent")
TraceInit == l = 1
TraceSpec == TraceInit /\ [][TStep]_l
=============================================================================
