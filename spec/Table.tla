------------------------------- MODULE Table -------------------------------
(* core-relations SortedWritesTable (core-relations/src/table/mod.rs) behind the
   Database API, for a table [key, val, ts] sorted by ts whose merge function
   keeps the larger val (a new row is written only when the value changes).

   Implementation-shaped state: `data` is the append-only row buffer with stale
   marks, `hash` maps a key to the index of its live row, `pend` are the staged
   mutations, `gen` the (major, minor) version.  merge = all staged removals,
   then all staged inserts (collisions resolved by the merge function), then
   compaction when stale > max(Thresh, n / 2) (the code has Thresh = 16).
   Ghost `model`: the plain keyed map key -> <<val, ts>> that C16 is about.    *)
EXTENDS Integers, Sequences, FiniteSets, TLC

CONSTANTS Keys, Vals, MaxTs, Thresh,
          KeepTs   \* the table without a sort column: its merge keeps the timestamp of the row it replaces
                   \* (a merge whose output differs from both operands); FALSE = the table sorted by ts

VARIABLES data,    \* Seq of [k, v, t, stale]
          hash,    \* [Keys -> 0 .. Len(data)], 0 = absent
          pend,    \* Seq of [op, k, v, t]
          ts,      \* timestamp given to newly staged inserts
          gen,     \* <<major, minor>>
          model    \* ghost: [Keys -> <<v, t>> or <<>>]

vars == <<data, hash, pend, ts, gen, model>>

None == <<>>
Max2(a, b) == IF a >= b THEN a ELSE b

\* ---- the keyed-map semantics of one merge: removals first, then inserts folded with the merge function
RECURSIVE ApplyIns(_, _, _)
ApplyIns(m, ops, i) ==
  IF i > Len(ops) THEN m
  ELSE LET o == ops[i] IN
       IF o.op # "ins" THEN ApplyIns(m, ops, i + 1)
       ELSE IF m[o.k] = None THEN ApplyIns([m EXCEPT ![o.k] = <<o.v, o.t>>], ops, i + 1)
       ELSE IF o.v > m[o.k][1] THEN ApplyIns([m EXCEPT ![o.k] = <<o.v, IF KeepTs THEN m[o.k][2] ELSE o.t>>], ops, i + 1)
       ELSE ApplyIns(m, ops, i + 1)
Removed(ops) == {ops[i].k : i \in {j \in 1 .. Len(ops) : ops[j].op = "rem"}}
ApplyOps(m, ops) == ApplyIns([k \in DOMAIN m |-> IF k \in Removed(ops) THEN None ELSE m[k]], ops, 1)

\* ---- the implementation's merge
RECURSIVE DoDelete(_, _, _, _)
DoDelete(d, h, ops, i) ==
  IF i > Len(ops) THEN <<d, h>>
  ELSE LET o == ops[i] IN
       IF o.op = "rem" /\ h[o.k] # 0
       THEN DoDelete([d EXCEPT ![h[o.k]].stale = TRUE], [h EXCEPT ![o.k] = 0], ops, i + 1)
       ELSE DoDelete(d, h, ops, i + 1)

RECURSIVE DoInsert(_, _, _, _)
DoInsert(d, h, ops, i) ==
  IF i > Len(ops) THEN <<d, h>>
  ELSE LET o == ops[i] IN
       IF o.op # "ins" THEN DoInsert(d, h, ops, i + 1)
       ELSE IF h[o.k] = 0
            THEN DoInsert(Append(d, [k |-> o.k, v |-> o.v, t |-> o.t, stale |-> FALSE]), [h EXCEPT ![o.k] = Len(d) + 1], ops, i + 1)
       ELSE IF o.v > d[h[o.k]].v      \* the merge function reports a change: new row, old one stale
            THEN DoInsert(Append([d EXCEPT ![h[o.k]].stale = TRUE], [k |-> o.k, v |-> o.v, t |-> IF KeepTs THEN d[h[o.k]].t ELSE o.t, stale |-> FALSE]),
                          [h EXCEPT ![o.k] = Len(d) + 1], ops, i + 1)
       ELSE DoInsert(d, h, ops, i + 1)

NStale(d) == Cardinality({i \in 1 .. Len(d) : d[i].stale})
LiveIdx(d) == {i \in 1 .. Len(d) : ~d[i].stale}
RECURSIVE Compact(_, _)
Compact(d, i) == IF i > Len(d) THEN <<>>
                 ELSE IF d[i].stale THEN Compact(d, i + 1) ELSE <<d[i]>> \o Compact(d, i + 1)
Rehash(d) == [k \in Keys |-> IF \E i \in 1 .. Len(d) : d[i].k = k /\ ~d[i].stale
                             THEN CHOOSE i \in 1 .. Len(d) : d[i].k = k /\ ~d[i].stale ELSE 0]

\* ---- actions
Init == /\ data = <<>> /\ hash = [k \in Keys |-> 0] /\ pend = <<>> /\ ts = 0
        /\ gen = <<0, 0>> /\ model = [k \in Keys |-> None]

StageInsert(k, v) == /\ pend' = Append(pend, [op |-> "ins", k |-> k, v |-> v, t |-> ts])
                     /\ UNCHANGED <<data, hash, ts, gen, model>>
StageRemove(k) == /\ pend' = Append(pend, [op |-> "rem", k |-> k, v |-> 0, t |-> 0])
                  /\ UNCHANGED <<data, hash, ts, gen, model>>
\* all rows staged for one merge carry the same timestamp (the parallel insertion path asserts it):
\* the clock only advances between merges
NoStagedInsert == \A i \in 1 .. Len(pend) : pend[i].op # "ins"
Tick == ts < MaxTs /\ NoStagedInsert /\ ts' = ts + 1 /\ UNCHANGED <<data, hash, pend, gen, model>>

Merge ==
  LET del == DoDelete(data, hash, pend, 1)
      ins == DoInsert(del[1], del[2], pend, 1)
      d2 == ins[1]
      h2 == ins[2]
      rehash == NStale(d2) > Max2(Thresh, Len(d2) \div 2)
      d3 == IF rehash THEN Compact(d2, 1) ELSE d2
  IN /\ data' = d3
     /\ hash' = IF rehash THEN Rehash(d3) ELSE h2
     /\ pend' = <<>>
     /\ gen' = IF rehash THEN <<gen[1] + 1, Len(d3)>> ELSE <<gen[1], Len(d3)>>
     /\ model' = ApplyOps(model, pend)
     /\ UNCHANGED ts

Clear ==
  /\ pend' = <<>>
  /\ IF Len(data) = 0 THEN UNCHANGED <<data, hash, gen>>
     ELSE data' = <<>> /\ hash' = [k \in Keys |-> 0] /\ gen' = <<gen[1] + 1, 0>>
  /\ model' = [k \in Keys |-> None]
  /\ UNCHANGED ts

Next == \/ \E k \in Keys, v \in Vals : StageInsert(k, v)
        \/ \E k \in Keys : StageRemove(k)
        \/ Tick \/ Merge \/ Clear
Spec == Init /\ [][Next]_vars

\* ---- what reads return
GetRow(k) == IF hash[k] = 0 THEN None ELSE <<data[hash[k]].v, data[hash[k]].t>>
ScanAll == [i \in 1 .. Cardinality(LiveIdx(data)) |->
              LET j == CHOOSE j \in LiveIdx(data) : Cardinality({x \in LiveIdx(data) : x <= j}) = i IN data[j]]

\* ---- invariants (C16)
HashConsistent ==
  /\ \A k \in Keys : hash[k] # 0 => (hash[k] <= Len(data) /\ data[hash[k]].k = k /\ ~data[hash[k]].stale)
  /\ \A i \in LiveIdx(data) : hash[data[i].k] = i
LookupIsModel == \A k \in Keys : GetRow(k) = model[k]
ScanIsModel ==        \* live rows are returned once, removed or superseded rows never
  /\ \A i \in LiveIdx(data) : model[data[i].k] = <<data[i].v, data[i].t>>
  /\ \A k \in Keys : model[k] # None => \E i \in LiveIdx(data) : data[i].k = k
  /\ Cardinality(LiveIdx(data)) = Cardinality({k \in Keys : model[k] # None})
SortedByTs == KeepTs \/ \A i, j \in 1 .. Len(data) : i < j => data[i].t <= data[j].t
StaleBounded == pend = <<>> => NStale(data) <= Max2(Thresh, Len(data) \div 2)
\* the version changes whenever a row is added or rewritten (removals only mark rows stale:
\* readers filter them by liveness, the version is that of the append-only buffer)
VersionTracksContent == [][(\E k \in Keys : model'[k] # model[k] /\ model'[k] # None) => (gen' # gen)]_vars
StagedIsInvisible == [][(pend' # pend /\ pend' # <<>>) => (model' = model /\ data' = data)]_vars
=============================================================================
