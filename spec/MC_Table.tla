----------------------------- MODULE MC_Table -----------------------------
EXTENDS Table, Json
VARIABLE hist
MaxLen == 7
MCInit == Init /\ hist = <<>>
Emit(c) == /\ Len(hist) < MaxLen /\ hist' = Append(hist, c) /\ PrintT(<<"REPLAY", ToJson(Append(hist, c))>>)
MCIns == \E k \in Keys, v \in Vals : StageInsert(k, v) /\ Emit([op |-> "ins", k |-> k, v |-> v])
MCRem == \E k \in Keys : StageRemove(k) /\ Emit([op |-> "rem", k |-> k, v |-> 0])
MCTick == Tick /\ Emit([op |-> "tick", k |-> 0, v |-> 0])
MCMerge == pend # <<>> /\ Merge /\ Emit([op |-> "merge", k |-> 0, v |-> 0])
MCClear == Clear /\ Emit([op |-> "clear", k |-> 0, v |-> 0])
MCNext == MCIns \/ MCRem \/ MCTick \/ MCMerge \/ MCClear
MCSpec == MCInit /\ [][MCNext]_<<vars, hist>>
View == vars
PendBound == Len(pend) <= 3
=============================================================================
