----------------------------- MODULE Conc_Trace -----------------------------
(* Trace validation of egglog-concurrency (C19).

   The harness (harness/src/conc.rs) runs seeded stress scenarios on the real
   ThreadPool, ReadOptimizedLock, ConcurrentVec, ParallelVecWriter and
   NotificationList and writes ONE totally ordered event log per scenario (the
   log position is the ticket; events that witness "inside the critical
   section" are logged inside it).  This module replays the log against the
   sequential meaning of each primitive; the scope counters logged by the
   cfg(egglog_verif) hook sites are checked against the counter protocol of the
   design model (PoolCounters: the same operators ThreadPool.tla uses).

   A failed predicate prints a BAD line and validation continues.               *)
EXTENDS PoolCounters, Json, IOUtils, TLC

Rec == ndJsonDeserialize(IOEnv.TRACE)

VARIABLES l,
          pool,   \* [task: t -> [s, st, pan], scope: s -> [st, rootpan, vid], ops: vid -> set of [op, prev], done: vid -> n]
          lk,     \* [readers: set of threads, writers: set of threads, val]
          cv,     \* [called, nret, ret: idx -> v, seen: idx -> v, lo: thread -> n]
          pw,     \* [init: seq, cells: idx -> v]
          nl      \* [owed: set of ids returned by notify since the last reset]

vars == <<l, pool, lk, cv, pw, nl>>

Has(r, f) == f \in DOMAIN r
Bad(code) == PrintT(<<"BAD", l, code>>)
Ev == Rec[l]
Is(e) == l <= Len(Rec) /\ Rec[l].e = e /\ l' = l + 1

EmptyFn == [x \in {} |-> 0]
Pool0 == [task |-> EmptyFn, scope |-> EmptyFn, ops |-> EmptyFn, done |-> EmptyFn]
Lk0 == [readers |-> {}, writers |-> {}, val |-> 0]
Cv0 == [called |-> 0, nret |-> 0, ret |-> EmptyFn, seen |-> EmptyFn, lo |-> EmptyFn]
Pw0 == [init |-> <<>>, cells |-> EmptyFn]
Nl0 == [owed |-> {}]

Upd(f, k, v) == (k :> v) @@ f          \* left-biased: overrides f[k]

\* ------------------------------------------------------------------ thread pool
TasksOf(s) == {t \in DOMAIN pool.task : pool.task[t].s = s}

PBegin == Is("p_begin") /\ pool' = Pool0 /\ UNCHANGED <<lk, cv, pw, nl>>

PScopeOpen ==
  /\ Is("p_scope_open")
  /\ (Ev.s \in DOMAIN pool.scope) => Bad("scope-opened-twice")
  /\ pool' = [pool EXCEPT !.scope = Upd(@, Ev.s, [st |-> "open", rootpan |-> 0, vid |-> 0])]
  /\ UNCHANGED <<lk, cv, pw, nl>>

PVid ==
  /\ Is("p_vid")
  /\ pool' = [pool EXCEPT !.scope = Upd(@, Ev.s, [@[Ev.s] EXCEPT !.vid = Ev.vid])]
  /\ UNCHANGED <<lk, cv, pw, nl>>

\* Scope::spawn is about to be called: the scope must still be waiting for work
PSpawn ==
  /\ Is("p_spawn")
  /\ (Ev.s \notin DOMAIN pool.scope \/ pool.scope[Ev.s].st = "ret") => Bad("spawn-into-returned-scope")
  /\ pool' = [pool EXCEPT !.task = Upd(@, Ev.t, [s |-> Ev.s, st |-> "spawned", pan |-> 0])]
  /\ UNCHANGED <<lk, cv, pw, nl>>

\* a worker started the callback: it was spawned and has not been started before (exactly once)
PStart ==
  /\ Is("p_start")
  /\ IF Ev.t \notin DOMAIN pool.task THEN Bad("task-started-but-never-spawned") /\ pool' = pool
     ELSE /\ (pool.task[Ev.t].st # "spawned") => Bad("task-started-twice")
          /\ (pool.scope[pool.task[Ev.t].s].st = "ret") => Bad("task-started-after-its-scope-returned")
          /\ pool' = [pool EXCEPT !.task = Upd(@, Ev.t, [@[Ev.t] EXCEPT !.st = "running"])]
  /\ UNCHANGED <<lk, cv, pw, nl>>

PEnd ==
  /\ Is("p_end")
  /\ (Ev.t \in DOMAIN pool.task /\ pool.scope[pool.task[Ev.t].s].st = "ret") => Bad("task-still-running-after-its-scope-returned")
  /\ pool' = [pool EXCEPT !.task = Upd(@, Ev.t, [@[Ev.t] EXCEPT !.st = "done", !.pan = Ev.panic])]
  /\ UNCHANGED <<lk, cv, pw, nl>>

PRootEnd ==
  /\ Is("p_root_end")
  /\ pool' = [pool EXCEPT !.scope = Upd(@, Ev.s, [@[Ev.s] EXCEPT !.st = "rootdone", !.rootpan = Ev.panic])]
  /\ UNCHANGED <<lk, cv, pw, nl>>

\* scope() returned: every task spawned in it has run exactly once and is finished;
\* it unwinds with a panic iff the root or one of its tasks panicked
PScopeRet ==
  /\ Is("p_scope_ret")
  /\ LET s == Ev.s
         ts == TasksOf(s)
         expectPanic == pool.scope[s].rootpan = 1 \/ \E t \in ts : pool.task[t].pan = 1
     IN /\ (\E t \in ts : pool.task[t].st # "done") => Bad("scope-returned-before-all-its-tasks-finished")
        /\ (expectPanic /\ Ev.panic = 0) => Bad("task-panic-not-reported-to-the-scope-caller")
        /\ (~expectPanic /\ Ev.panic = 1) => Bad("scope-panicked-without-a-panicking-task")
        /\ pool' = [pool EXCEPT !.scope = Upd(@, s, [@[s] EXCEPT !.st = "ret"])]
  /\ UNCHANGED <<lk, cv, pw, nl>>

\* hook: a read-modify-write on a scope's packed counter, with the value it observed
HOp ==
  /\ Is("h_op")
  /\ LET o == [op |-> Ev.op, prev |-> <<Ev.prev[1], Ev.prev[2]>>]
         old == IF Ev.vid \in DOMAIN pool.ops THEN pool.ops[Ev.vid] ELSE {}
     IN /\ (o \in old) => Bad("two-counter-operations-observed-the-same-value")
        /\ pool' = [pool EXCEPT !.ops = Upd(@, Ev.vid, old \cup {o})]
  /\ UNCHANGED <<lk, cv, pw, nl>>

HDone ==
  /\ Is("h_done")
  /\ pool' = [pool EXCEPT !.done = Upd(@, Ev.vid, (IF Ev.vid \in DOMAIN @ THEN @[Ev.vid] ELSE 0) + 1)]
  /\ UNCHANGED <<lk, cv, pw, nl>>

HOther == (Is("h_pop") \/ Is("h_scope_new") \/ Is("h_wait")) /\ UNCHANGED <<pool, lk, cv, pw, nl>>

\* the pool has been dropped (workers joined): per scope, the logged counter operations
\* form a chain of the counter protocol: one expect per spawned task, one completion per
\* task and root, every operation found the scope live, the last one signalled `done` once
PQuiesce ==
  /\ Is("p_quiesce")
  /\ \A s \in DOMAIN pool.scope :
       LET vid == pool.scope[s].vid
           ops == IF vid \in DOMAIN pool.ops THEN pool.ops[vid] ELSE {}
           nt == Cardinality(TasksOf(s))
       IN /\ (pool.scope[s].st # "ret") => Bad("scope-never-returned")
          /\ (vid # 0 /\ ~ChainOK(ops)) => Bad("scope-counter-history-is-not-a-chain-of-the-protocol")
          /\ (vid # 0 /\ Cardinality({o \in ops : o.op = "e"}) # nt) => Bad("expect-count-differs-from-spawn-count")
          /\ (vid # 0 /\ Cardinality({o \in ops : o.op = "c"}) # nt + 1) => Bad("completion-count-differs-from-task-count")
          /\ (vid # 0 /\ (IF vid \in DOMAIN pool.done THEN pool.done[vid] ELSE 0) # 1) => Bad("done-signalled-other-than-once")
  /\ (\E t \in DOMAIN pool.task : pool.task[t].st # "done") => Bad("task-never-ran")
  /\ UNCHANGED <<pool, lk, cv, pw, nl>>

Crash == Is("crash") /\ Bad("scenario-panicked") /\ UNCHANGED <<pool, lk, cv, pw, nl>>
Timeout == Is("timeout") /\ Bad("scenario-did-not-finish-deadlock-or-lost-wakeup") /\ UNCHANGED <<pool, lk, cv, pw, nl>>

\* ------------------------------------------------------------------ read-optimised lock
LBegin == Is("l_begin") /\ lk' = Lk0 /\ UNCHANGED <<pool, cv, pw, nl>>
LRin ==
  /\ Is("l_rin")
  /\ (lk.writers # {}) => Bad("reader-inside-while-a-writer-is-inside")
  /\ lk' = [lk EXCEPT !.readers = @ \cup {Ev.th}]
  /\ UNCHANGED <<pool, cv, pw, nl>>
LRout ==
  /\ Is("l_rout")
  /\ (Ev.w[1] # Ev.w[2]) => Bad("reader-saw-a-partial-update")
  /\ (Ev.w[1] = Ev.w[2] /\ Ev.w[1] # lk.val) => Bad("reader-saw-a-stale-value")
  /\ lk' = [lk EXCEPT !.readers = @ \ {Ev.th}]
  /\ UNCHANGED <<pool, cv, pw, nl>>
LWin ==
  /\ Is("l_win")
  /\ (lk.writers # {}) => Bad("two-writers-inside")
  /\ (lk.readers # {}) => Bad("writer-inside-while-a-reader-is-inside")
  /\ lk' = [lk EXCEPT !.writers = @ \cup {Ev.th}]
  /\ UNCHANGED <<pool, cv, pw, nl>>
LWout ==
  /\ Is("l_wout")
  /\ lk' = [lk EXCEPT !.writers = @ \ {Ev.th}, !.val = Ev.v]
  /\ UNCHANGED <<pool, cv, pw, nl>>

\* ------------------------------------------------------------------ concurrent vector
\* sequential meaning: an append-only vector; push returns the index of its element, a read
\* returns a prefix that contains every push that had returned and no push not yet called
VBegin == Is("v_begin") /\ cv' = Cv0 /\ UNCHANGED <<pool, lk, pw, nl>>
VPushCall == Is("v_push_call") /\ cv' = [cv EXCEPT !.called = @ + 1] /\ UNCHANGED <<pool, lk, pw, nl>>
VPushRet ==
  /\ Is("v_push_ret")
  /\ (Ev.idx \in DOMAIN cv.ret) => Bad("two-pushes-got-the-same-index")
  /\ (Ev.idx >= cv.called) => Bad("push-index-beyond-the-number-of-pushes")
  /\ (Ev.idx \in DOMAIN cv.seen /\ cv.seen[Ev.idx] # Ev.v) => Bad("a-reader-saw-another-value-at-this-index")
  /\ cv' = [cv EXCEPT !.ret = Upd(@, Ev.idx, Ev.v), !.nret = @ + 1]
  /\ UNCHANGED <<pool, lk, pw, nl>>
VReadCall == Is("v_read_call") /\ cv' = [cv EXCEPT !.lo = Upd(@, Ev.th, cv.nret)] /\ UNCHANGED <<pool, lk, pw, nl>>
VReadRet ==
  /\ Is("v_read_ret")
  /\ LET n == Len(Ev.vals)
         idx == 0 .. (n - 1)
     IN /\ (n < cv.lo[Ev.th]) => Bad("read-misses-a-completed-push")
        /\ (n > cv.called) => Bad("read-returns-more-elements-than-pushes")
        /\ (\E i \in idx : i \in DOMAIN cv.ret /\ cv.ret[i] # Ev.vals[i + 1]) => Bad("read-saw-a-wrong-element")
        /\ (\E i \in idx : i \in DOMAIN cv.seen /\ cv.seen[i] # Ev.vals[i + 1]) => Bad("two-reads-disagree")
        /\ (\E i \in idx : Ev.vals[i + 1] = 0) => Bad("read-saw-an-uninitialised-cell")
        /\ cv' = [cv EXCEPT !.seen = [i \in (DOMAIN @) \cup idx |-> IF i \in DOMAIN @ THEN @[i] ELSE Ev.vals[i + 1]]]
  /\ UNCHANGED <<pool, lk, pw, nl>>
VEnd ==
  /\ Is("v_end")
  /\ (Len(Ev.final) # cv.called \/ cv.nret # cv.called) => Bad("final-length-differs-from-the-number-of-pushes")
  /\ (\E i \in DOMAIN cv.ret : i + 1 > Len(Ev.final) \/ Ev.final[i + 1] # cv.ret[i]) => Bad("a-pushed-element-is-missing-or-altered")
  /\ UNCHANGED <<pool, lk, cv, pw, nl>>

\* ------------------------------------------------------------------ parallel writer
WBegin == Is("w_begin") /\ pw' = (IF Has(Ev, "init") THEN [init |-> Ev.init, cells |-> [i \in 0 .. (Len(Ev.init) - 1) |-> Ev.init[i + 1]]] ELSE Pw0)
          /\ UNCHANGED <<pool, lk, cv, nl>>
WWriteRet ==
  /\ Is("w_write_ret")
  /\ LET rng == Ev.start .. (Ev.start + Len(Ev.items) - 1) IN
     /\ (rng \cap DOMAIN pw.cells # {}) => Bad("ranged-writes-overlap")
     /\ pw' = [pw EXCEPT !.cells = [i \in (DOMAIN @) \cup rng |-> IF i \in rng THEN Ev.items[i - Ev.start + 1] ELSE @[i]]]
  /\ UNCHANGED <<pool, lk, cv, nl>>
WRead ==
  /\ Is("w_read")
  /\ (Ev.idx \in DOMAIN pw.cells /\ pw.cells[Ev.idx] # Ev.v) => Bad("read-of-a-written-cell-saw-another-value")
  /\ UNCHANGED <<pool, lk, cv, pw, nl>>
WEnd ==
  /\ Is("w_end")
  /\ (DOMAIN pw.cells # 0 .. (Len(Ev.final) - 1)) => Bad("final-vector-is-not-exactly-the-written-ranges")
  /\ (\E i \in DOMAIN pw.cells : i < Len(Ev.final) /\ Ev.final[i + 1] # pw.cells[i]) => Bad("a-written-element-is-missing-or-altered")
  /\ UNCHANGED <<pool, lk, cv, pw, nl>>

\* ------------------------------------------------------------------ notification list
NBegin == Is("n_begin") /\ nl' = Nl0 /\ UNCHANGED <<pool, lk, cv, pw>>
NCall == Is("n_call") /\ UNCHANGED <<pool, lk, cv, pw, nl>>
NRet == Is("n_ret") /\ nl' = [nl EXCEPT !.owed = @ \cup {Ev.id}] /\ UNCHANGED <<pool, lk, cv, pw>>
NReset ==
  /\ Is("n_reset")
  /\ LET ids == {Ev.ids[i] : i \in 1 .. Len(Ev.ids)} IN
     /\ (Cardinality(ids) # Len(Ev.ids)) => Bad("reset-returned-an-id-twice")
     /\ (nl.owed \ ids # {}) => Bad("a-notified-id-was-not-returned-by-the-next-reset")
     /\ (ids \ nl.owed # {}) => Bad("reset-returned-an-id-nobody-notified")
  /\ nl' = Nl0
  /\ UNCHANGED <<pool, lk, cv, pw>>

TraceInit == l = 1 /\ pool = Pool0 /\ lk = Lk0 /\ cv = Cv0 /\ pw = Pw0 /\ nl = Nl0
TraceNext ==
  \/ PBegin \/ PScopeOpen \/ PVid \/ PSpawn \/ PStart \/ PEnd \/ PRootEnd \/ PScopeRet \/ HOp \/ HDone \/ HOther \/ PQuiesce \/ Timeout \/ Crash
  \/ LBegin \/ LRin \/ LRout \/ LWin \/ LWout
  \/ VBegin \/ VPushCall \/ VPushRet \/ VReadCall \/ VReadRet \/ VEnd
  \/ WBegin \/ WWriteRet \/ WRead \/ WEnd
  \/ NBegin \/ NCall \/ NRet \/ NReset
TraceSpec == TraceInit /\ [][TraceNext]_vars
=============================================================================
