SPECIFICATION MCSpec
VIEW ViewCC
INVARIANT StateConsistent EqIsCC
CHECK_DEADLOCK FALSE
