#!/usr/bin/env python3
"""Regenerates /verif/MANIFEST.json from the table below (single source of truth)."""
import json, os
ROOT = os.path.dirname(os.path.dirname(os.path.abspath(__file__)))
props = [json.loads(l) for l in open(os.path.join(ROOT, "properties.jsonl"))]

CHECKS = {
 "C17": dict(
   engine="UnionFind",
   technique="TLC model checking of UnionFind.tla / ConcUF.tla + replay of the model's transition cover on the real structures + TLC trace validation (UnionFind_Trace)",
   text="The sequential union-find is modelled action-per-method (union by min, path halving, find_naive, reset) with a ghost partition; TLC checks SameRepIffConnected, RepIsMin, FindPreservesPartition exhaustively at small N, every transition of the model's state graph is replayed on egglog_union_find::UnionFind, and every recorded call (return value + representatives of all ids) must be a step of the model.",
   note="bounded ids (N<=6); sequentially consistent memory in the concurrent model; trace validation covers the executed runs only",
   ref="6 (C17)"),
}

NA = {
}
DEFAULT_NA = "check not built yet (work in progress, DESIGN.md section 10)"

def main():
    checks = []
    for pid, c in sorted(CHECKS.items()):
        checks.append(dict(
            property_id=pid,
            quick_cmd="./tools/verif check %s --tier quick" % pid,
            thorough_cmd="./tools/verif check %s --tier thorough" % pid,
            evidence_file="evidence/%s.json" % pid,
            replay_cmd_template="./tools/verif replay {path}",
            engine=c["engine"],
            level_claimed=dict(category=c.get("category", "model_checking"), text=c["text"], design_ref="DESIGN.md section " + c["ref"]),
            level_note=c["note"],
            technique=c["technique"]))
    na = []
    for p in props:
        if p["id"] not in CHECKS:
            na.append(dict(property_id=p["id"], reason=NA.get(p["id"], DEFAULT_NA)))
    hooks_commits = []
    hp = os.path.join(ROOT, "hooks_commits.txt")
    if os.path.exists(hp):
        hooks_commits = [l.split()[0] for l in open(hp) if l.strip()]
    m = dict(version=1, setup_cmd="./tools/verif setup",
             hooks=dict(guard="egglog_verif",
                        enable="harness/.cargo/config.toml passes `--cfg egglog_verif` (rustflags) to every crate of /repo built as a path dependency of /verif/harness",
                        baseline_off_cmd="cd /repo && cargo nextest run --workspace --no-fail-fast --tool-config-file pb:/w/lib/nextest.toml --profile pb --test-threads 8 --offline",
                        source_commits=hooks_commits, add_only=True),
             engines=[dict(name="tlc+conform", path="tools/verif", serves_properties=sorted(CHECKS),
                           kind_free_text="TLA+ specification suite (spec/*.tla) checked by TLC; Rust conformance harness (harness/) replays model behaviours on the real crates and records ndjson traces validated by *_Trace.tla modules")],
             checks=checks,
             notes="Model-based verification with an explicit TLA+ specification; see DESIGN.md. Exit 2 from a check means tool error/time-out/vacuity (broken check), never a verdict.",
             not_applicable=na)
    json.dump(m, open(os.path.join(ROOT, "MANIFEST.json"), "w"), indent=1)

if __name__ == "__main__":
    main()
