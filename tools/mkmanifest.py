#!/usr/bin/env python3
"""Regenerates /verif/MANIFEST.json from the table below (single source of truth)."""
import json, os
ROOT = os.path.dirname(os.path.dirname(os.path.abspath(__file__)))
props = [json.loads(l) for l in open(os.path.join(ROOT, "properties.jsonl"))]

CHECKS = {
 "C17": dict(
   engine="UnionFind",
   technique="TLC model checking of UnionFind.tla / ConcUF.tla + replay of the model's transition cover on the real structures + TLC trace validation (UnionFind_Trace)",
   text="The sequential union-find is modelled action-per-method (union by min, path halving, find_naive, reset) with a ghost partition; TLC checks SameRepIffConnected, RepIsMin, FindPreservesPartition exhaustively at small N, every transition of the model's state graph is replayed on egglog_union_find::UnionFind, and every recorded call (return value + representatives of all ids) must be a step of the model.",
   note="bounded ids (N<=6); sequentially consistent memory in the concurrent model; trace validation covers the executed runs only",
   ref="6 (C17)"),
}

SESS_TECH = "TLC model checking of EggAbs.tla on model programs (MC_EggAbs) + replay of its transition cover and seeded sessions on the real engine + TLC trace validation (EggAbs_Trace) of the raw state logged after every command"
SESS_NOTE = "fragment of DESIGN.md section 5 (eq-sorts, constructors, relations, lattice-merge functions, flat rule bodies); bounded model programs and session lengths; the trusted base is TLC, the Json module and the ~250-line Rust dump of raw rows"
CHECKS.update({
 "C01": dict(engine="EggAbs", technique=SESS_TECH, note=SESS_NOTE, ref="6 (C01)",
   text="EggAbs names every e-class by its least ground term, so equality in the specification is the congruence closure by construction; TLC checks on model program P1 that this equality coincides with an independently computed congruence closure of the asserted unions (EqIsCC) over all insert/union histories at the bound, every transition of the model graph is replayed on the real engine, and after every command of every session the logged raw database, renamed by least terms inside TLA+, must equal the specification's state (all represented term pairs, positive and negative), and every issued (check (= t1 t2)) must have the predicted outcome."),
 "C03": dict(engine="EggAbs", technique=SESS_TECH + "; twin runs seminaive on/off", note=SESS_NOTE + "; monotone programs only", ref="6 (C03)",
   text="EggAbs.RunOnce is the naive semantics (all matches against the pre-state). Every session is executed twice, with semi-naive evaluation on and off, and both traces must be accepted by the same deterministic specification after every command, so the two modes agree with the oracle and hence with each other; sessions declare rules late, use several rulesets and unions between runs so that per-rule last-run timestamps and rebuild re-stamping are exercised."),
 "C04": dict(engine="EggAbs", technique=SESS_TECH + "; raw-state invariants evaluated in TLA+ after every command including failing ones", note=SESS_NOTE, ref="6 (C04)",
   text="After every command (also after commands that fail at run time: panicking rules, :no-merge conflicts) the trace module evaluates on the logged raw state: keys unique per table, every stored id canonical (value_to_class_id(v) = v), no two congruent rows, and the least-term renaming of the raw state equals the specification's state; after a failed run the observed state is adopted and later non-run commands are checked exactly against it."),
 "C05": dict(engine="EggAbs", technique=SESS_TECH + "; child processes with EGGLOG_PARALLEL_*_CUTOFF=0 and 2/4 threads", note=SESS_NOTE + "; merges min,max,or,and,set-union,set-intersect,:no-merge", ref="6 (C05)",
   text="EggAbs folds every write with the function's merge (MergeV) at top level, in rule heads and on collisions created by unions (Close); model program P2 is explored exhaustively and replayed; all sessions run on the serial path and on the parallel insertion paths (cut-offs 0, 2 and 4 threads) and the logged function tables must equal the specification's fold; a :no-merge conflict must be an error."),
 "C06": dict(engine="EggAbs", technique=SESS_TECH + "; every session under 1/2/4/8 threads and cut-offs default/0/mixed", note=SESS_NOTE + "; OS schedules sampled", ref="6 (C06)",
   text="Every session is run with 1, 2, 4 and 8 threads and with the parallel cut-offs at their defaults, at 0 and mixed (one child process per environment); each trace must be accepted by the same deterministic specification, which makes check outcomes, sizes, values and the least-term-named database equal across configurations."),
 "C13": dict(engine="EggAbs", technique=SESS_TECH, note=SESS_NOTE + "; delete family runs with seminaive=false", ref="6 (C13)",
   text="The subsumed flag is a row attribute of EggAbs: Matches ignores subsumed rows, check includes them, Close combines flags with OR when rows collide; model program P4 (subsume at top level and in rule heads, unions merging subsumed and non-subsumed rows in both orders, re-insertion) is explored exhaustively and replayed; sessions interleave subsume/delete/union/push/pop and the logged Enode.subsumed flags, derived relations and check outcomes must equal the specification's after every command, serial and parallel."),
 "C08": dict(engine="EggAbs", technique=SESS_TECH + "; push/pop stack and a second e-graph slot (clone) in the trace specification", note=SESS_NOTE, ref="6 (C08)",
   text="The trace specification keeps the stack of pushed states (database, declared rules, declared functions) and, after EGraph::clone, a second slot; pop must restore exactly the saved state, every command of the continuation is checked exactly against the specification (so P;push;Q;pop;R is indistinguishable from P;R), names declared inside the bracket must be declarable again, and the idle e-graph of a clone pair is dumped after every command on the other one and must not change."),
 "C09": dict(engine="EggAbs", technique=SESS_TECH + "; injection of invalid commands and follow-up probes, in plain / term-encoding / proof mode", note=SESS_NOTE + "; mutation kinds from a fixed list, no arbitrary byte strings", ref="6 (C09)",
   text="Invalid commands (wrong arity/sort, unbound names, unknown rulesets, ill-scoped rules, duplicate or ill-formed declarations, truncated text) are inserted at random positions of valid sessions on one EGraph; the specification classifies them as rejected: the engine must return an error value (a panic is recorded as data and reported), the logged database must equal the one before, probes that re-declare the rejected name must succeed, and the rest of the session must still be accepted."),
 "C10": dict(engine="EggAbs", technique="TLC invariants SchedLaws / SatIsFixpoint on MC_EggAbs (model program P5) + " + SESS_TECH, note=SESS_NOTE + "; delete-free programs", ref="6 (C10)",
   text="EggAbs.Sched is a transcription of run_schedule with RunReport.updated / can_stop (IterUpd computes `updated` as the engine does); TLC checks on every reachable database of model program P5 that law-related schedules give the same database, that a saturated schedule is a fixpoint and reports updated = false when re-run; the engine is bound to the interpreter by validating the database and the updated flag after every run-schedule command of nested repeat/saturate/seq/:until schedules, combined rulesets and rules declared late."),
 "C07": dict(engine="Extract", technique="TLC: the extraction algorithm model (Extract!BF: Bellman-Ford + rank guard, saturating costs) checked against the reference least fixpoint MinCost on all small e-graphs and scan orders (MC_Extract) + replay of model e-graphs and counterexamples on the real extractor + TLC trace validation of every (extract ..) result (cost = MinCost, term in class, only usable rows, tree cost = reported cost, variants rooted at distinct e-nodes)",
   note="bounded e-graphs (2-3 classes, 3-4 rows exhaustively; larger ones sampled); scaled u64 arithmetic (Huge = i64::MAX, Cap = u64::MAX); no containers; the algorithm model is bound to the code through extraction results only", ref="6 (C07)",
   text="Extract.tla defines the reference (least fixpoint of the tree-additive cost over non-subsumed, extractable rows with saturating addition) and transcribes the algorithm; TLC checks CostIsMin, HasCostHasParent, ParentsWellFounded, TermCostIsCost on every e-graph and scan order at the bound, with and without saturating costs; the e-graphs (and the counterexamples found with saturation) are rebuilt on the real engine and every class extracted; the trace module recomputes MinCost on the logged rows and evaluates the returned terms in the logged e-graph."),
 "C14": dict(engine="EggAbs", technique=SESS_TECH + "; container values in the specification; directed in-place-rebuild scenarios; twin runs semi-naive/naive and parallel container rebuild", note=SESS_NOTE + "; Vec/Set/MultiSet/Pair over an eq-sort nested up to 3 levels, no Map", ref="6 (C14)",
   text="Containers are values of EggAbs (contents over least-term class names, re-normalised by MapVal whenever class names change), so two containers equal modulo the current equalities are the same value and rows keyed by them are merged by Close; the trace module rebuilds container values from the logged raw contents, checks that ids inside containers are canonical and that equal contents share one container id, and compares the database after every command; random sessions and directed scenarios (a rule matching through nested contents that only becomes matchable by an in-place rebuild) run under semi-naive, naive and 4-thread/cut-off-0 configurations."),
 "C16": dict(engine="Table", technique="TLC model checking of Table.tla (append-only buffer with stale marks, hash, staged mutations, compaction, version; ghost keyed map) + replay of its transition cover and seeded long operation sequences on SortedWritesTable / DisplacedTable through the Database API + TLC trace validation (Table_Trace) of every answer",
   note="one table shape [key, val, ts] sorted by ts with a max merge, keys 0..3; compaction threshold scaled to 1 in the model, real threshold 16 crossed by the long sequences; index-backed reads through RuleSet queries not driven; row order within a timestamp unspecified", ref="6 (C16)",
   text="Table.tla carries the implementation structure and a ghost keyed map; TLC checks HashConsistent, LookupIsModel, ScanIsModel, SortedByTs, StaleBounded, VersionTracksContent, StagedIsInvisible over all operation sequences at the bound (with compaction inside the bound); the transition cover and long random sequences (serial and 4 threads with cut-offs 0) run on the real tables and after every operation len, full scan, point lookups, constrained scans (Eq/EqConst/Lt/Le/Gt/Ge on key, value and sort column), fast subsets on the sort column and the version are compared with the model."),
})

CHECKS["C19"] = dict(
   engine="ThreadPool",
   technique="TLC model checking of ThreadPool.tla (scope counters, shared queue, helping, backup workers, panics), ROLock.tla (RCU token protocol) and ConcVec.tla: safety invariants, deadlock freedom, termination/progress under weak fairness + seeded stress scenarios on the real egglog-concurrency primitives with cfg(egglog_verif) schedule perturbation, recorded as totally ordered event logs and validated event by event by TLC (Conc_Trace.tla), including the scope-counter histories logged by the hook sites against the counter protocol shared with the design model (PoolCounters.tla)",
   note="design models are sequentially consistent and bounded (2-3 workers, 3-4 tasks, 3 scopes, help depth scaled to 1; 3-4 lock clients); the real code's OS schedules are sampled with seeded perturbation, not enumerated; the backup-worker path (help depth 64) is reached in the model only; ResettableOnceLock and SharedArena are not driven",
   ref="6 (C19)",
   text="ThreadPool.tla has one action per atomic step of Scope::spawn, the job wrapper, complete_one, the done channel and the three ways of waiting (block, help, backup worker); TLC checks ScopeReturnsAfterAll, ExactlyOnce, DoneSentOnce, NoTouchAfterComplete, PanicNotLost, deadlock freedom and termination under weak fairness. ROLock.tla models the ArcSwap token with guard counts and checks reader/writer exclusion and progress; ConcVec.tla checks that readers only see initialised prefixes across resizes. The real primitives are driven by seeded scenario generators (spawn trees with nested scopes and panics on pools of 1..16 threads, reader/writer mixes, concurrent pushes/ranged writes/notifications) and each log is validated by Conc_Trace.tla: tasks start exactly once and only after being spawned, a scope returns only after all its tasks ended and reports exactly the panics that happened, the logged counter operations of every scope form a chain of the counter protocol ending in one done signal, no reader/writer overlap and no torn or stale read, pushes/ranged writes are all present and intact, reads are prefixes.")

NA = {
 "C20": "bit-for-bit reproducibility is a 2-safety property over artefacts the specification deliberately abstracts (raw id numbering, row order inside a timestamp, hash seeds, addresses); a TLA+ model that fixed them would transcribe the hashing, one that does not cannot distinguish two runs; deciding it needs a twin-process byte comparison, which is a different technique (DESIGN.md section 8)",
}
DEFAULT_NA = "check not built yet (work in progress, DESIGN.md section 10)"

def main():
    checks = []
    for pid, c in sorted(CHECKS.items()):
        checks.append(dict(
            property_id=pid,
            quick_cmd="./tools/verif check %s --tier quick" % pid,
            thorough_cmd="./tools/verif check %s --tier thorough" % pid,
            evidence_file="evidence/%s.json" % pid,
            replay_cmd_template="./tools/verif replay {path}",
            engine=c["engine"],
            level_claimed=dict(category=c.get("category", "model_checking"), text=c["text"], design_ref="DESIGN.md section " + c["ref"]),
            level_note=c["note"],
            technique=c["technique"]))
    na = []
    for p in props:
        if p["id"] not in CHECKS:
            na.append(dict(property_id=p["id"], reason=NA.get(p["id"], DEFAULT_NA)))
    hooks_commits = []
    hp = os.path.join(ROOT, "hooks_commits.txt")
    if os.path.exists(hp):
        hooks_commits = [l.split()[0] for l in open(hp) if l.strip()]
    m = dict(version=1, setup_cmd="./tools/verif setup",
             hooks=dict(guard="egglog_verif",
                        enable="harness/.cargo/config.toml passes `--cfg egglog_verif` (rustflags) to every crate of /repo built as a path dependency of /verif/harness",
                        baseline_off_cmd="cd /repo && cargo nextest run --workspace --no-fail-fast --tool-config-file pb:/w/lib/nextest.toml --profile pb --test-threads 8 --offline",
                        source_commits=hooks_commits, add_only=True),
             engines=[dict(name="tlc+conform", path="tools/verif", serves_properties=sorted(CHECKS),
                           kind_free_text="TLA+ specification suite (spec/*.tla) checked by TLC; Rust conformance harness (harness/) replays model behaviours on the real crates and records ndjson traces validated by *_Trace.tla modules")],
             checks=checks,
             notes="Model-based verification with an explicit TLA+ specification; see DESIGN.md. Exit 2 from a check means tool error/time-out/vacuity (broken check), never a verdict.",
             not_applicable=na)
    json.dump(m, open(os.path.join(ROOT, "MANIFEST.json"), "w"), indent=1)

if __name__ == "__main__":
    main()
