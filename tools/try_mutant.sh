#!/bin/bash
# usage: try_mutant.sh <patch.diff> <Cxx> [tier]  -- applies a seeded change to /repo, runs the check, restores /repo
P=$1; ID=$2; TIER=${3:-quick}
cd /repo || exit 2
if ! git diff --quiet; then echo "/repo is dirty"; exit 2; fi
git apply --3way "$P" 2>/tmp/apply.err || patch -p1 --fuzz=3 < "$P" >/tmp/apply.err 2>&1 || { echo "patch does not apply"; cat /tmp/apply.err; git checkout -- .; exit 2; }
git diff --stat | tail -1
cd /verif && VERIF_DEV_SKIP_MODELS=${VERIF_DEV_SKIP_MODELS:-} ./tools/verif check $ID --tier $TIER 2>&1 | grep -E "VIOLATION|KNOWN|TOOL-ERROR|^  " | cut -c1-260 | head -14
echo "exit=${PIPESTATUS[0]}"
cd /repo && git reset -q --hard HEAD && git status --short | head -3
