#!/usr/bin/env python3
"""debug helper: run an .egg text (one command per line) through the harness and print res/upd per command.
usage: runtext.py file.egg [threads] [par0] [naive]"""
import sys, json, os
sys.path.insert(0, os.path.dirname(os.path.abspath(__file__)))
from vlib import core, sess
lines=[l.strip() for l in open(sys.argv[1]) if l.strip() and not l.startswith(';')]
threads=int(sys.argv[2]) if len(sys.argv)>2 else 1
env=sess.PAR0 if 'par0' in sys.argv else None
mode=dict(threads=threads,seminaive='naive' not in sys.argv,enc='plain')
s=dict(id='x',mode=mode,prog=dict(funcs=[],rules=[],rsets=[]),active=[],setup=[],steps=[dict(c=dict(k='noop'),text=l) for l in lines],tables=[a for a in sys.argv if a.startswith('T:')][0][2:].split(',') if any(a.startswith('T:') for a in sys.argv) else [])
tr=sess.run_sessions([s],'runtext',env=env)
for e in core.read_ndjson(tr):
    if e['e']=='cmd': print("%-70s %s upd=%s %s %s"%(e['text'][:70],e['res'],e.get('upd'),e.get('msg','')[:80].replace('\n',' '), json.dumps(e['tabs']) if e['tabs'] else ''))
