#!/bin/bash
# usage: confirm_mutant.sh <Cxx> <name>  -- worktree /tmp/wt-<Cxx>[suffix] with $SD/{patch.diff,demo.sh}
# Confirms in the scratch worktree: patch applies to pinned HEAD, builds, the stable baseline tests pass with it,
# demo fails with it and passes without it.  Writes /tmp/confirm-<name>.json
set -u
WT=$1; NAME=$2; SD=${3:-_seeded}
cd $WT || exit 2
cp -r $SD /tmp/_seeded_$NAME
git checkout -q -- . 2>/dev/null
git apply $SD/patch.diff || { echo "patch does not apply"; exit 2; }
BUILD=ok
cargo build --offline --workspace -j 8 >/tmp/confirm-$NAME.build.log 2>&1 || BUILD=fail
DEMO_WITH=0
bash $SD/demo.sh >/tmp/confirm-$NAME.demo_with.log 2>&1; DEMO_WITH=$?
# test suite with the change
rm -f target/nextest/pb/junit.xml
cargo nextest run --workspace --no-fail-fast --tool-config-file pb:/w/lib/nextest.toml --profile pb --test-threads 6 --offline >/tmp/confirm-$NAME.test.log 2>&1
python3 - "$NAME" "$WT" <<'PY'
import sys, json, re, xml.etree.ElementTree as ET, glob
name, wt = sys.argv[1], sys.argv[2]
stable = set(json.load(open('/root/.vp/BASELINE.json'))['stable_pass'])
res = {}
for f in glob.glob(wt + '/target/nextest/pb/junit.xml'):
    for tc in ET.parse(f).getroot().iter('testcase'):
        cls = tc.get('classname'); nm = tc.get('name')
        ok = not any(ch.tag in ('failure', 'error') for ch in tc)
        res[cls + '::' + nm] = ok
        res[nm] = ok
failed = sorted(t for t in stable if not res.get(t, res.get(t.split('::',1)[-1], False)))
json.dump(dict(stable=len(stable), seen=len(res), stable_failed=failed[:50], n_failed=len(failed)), open('/tmp/confirm-%s.tests.json' % name, 'w'), indent=1)
print("stable tests failing with the change:", len(failed), failed[:10])
PY
git checkout -q -- .
cargo build --offline --workspace -j 8 >/dev/null 2>&1
bash $SD/demo.sh >/tmp/confirm-$NAME.demo_without.log 2>&1; DEMO_WITHOUT=$?
git apply $SD/patch.diff
echo "{\"build\":\"$BUILD\",\"demo_with_change_exit\":$DEMO_WITH,\"demo_without_change_exit\":$DEMO_WITHOUT}" > /tmp/confirm-$NAME.json
cat /tmp/confirm-$NAME.json
