"""Library of model programs for exhaustive exploration of EggAbs (MC_EggAbs):
each is a fixed program + a finite command alphabet, written to a JSON file that
the TLA+ module reads (env MODEL) and that the replay driver renders to text."""
import itertools, json
from . import sessgen
from .sessgen import Prog, Gen


def flat(t):
    if "i" in t:
        return [0, t["i"]]
    out = [t["f"]]
    for a in t["a"]:
        out += flat(a)
    return out


def universe(p, cons, depth):
    """all ground terms over constructor indices `cons` up to `depth`"""
    levels = [[]]
    terms = []
    for d in range(depth + 1):
        new = []
        for f in cons:
            ar = len(p.funcs[f - 1]["ins"])
            if ar == 0:
                if d == 0:
                    new.append({"f": f, "a": []})
                continue
            if d == 0:
                continue
            for args in itertools.product(terms, repeat=ar):
                t = {"f": f, "a": list(args)}
                if t not in terms and t not in new:
                    new.append(t)
        terms = terms + new
    return terms


def model_P1(maxlen=4, depth=2):
    """P1: constructors only (2 constants, unary F, binary H); insert/union of terms up to depth 2."""
    p = Prog()
    A = p.add("A", "con", [], "E"); B = p.add("B", "con", [], "E")
    F = p.add("F", "con", ["E"], "E"); H = p.add("H", "con", ["E", "E"], "E")
    p.rsets.append(dict(name="rs0", kind="rules", subs=[]))
    U = universe(p, [A, B, F, H], depth)
    small = universe(p, [A, B, F, H], 1)
    t = lambda f, *a: {"f": f, "a": list(a)}
    a, b = t(A), t(B)
    interesting = [a, b, t(F, a), t(F, b), t(F, t(F, a)), t(H, a, b), t(H, b, a), t(H, t(F, a), b), t(F, t(H, a, b))]
    cmds = [dict(k="ins", t=x) for x in [t(F, t(F, a)), t(H, t(F, a), b), t(F, t(H, a, b)), t(H, b, a)]]
    pairs = [(a, b), (a, t(F, a)), (t(F, a), b), (t(F, t(F, a)), a), (t(H, a, b), a), (t(H, a, b), t(H, b, a)),
             (t(F, a), t(F, b)), (t(H, t(F, a), b), t(F, b))]
    cmds += [dict(k="union", a=x, b=y) for x, y in pairs]
    # universe: subterm-closed, contains every term of the alphabet plus all terms of depth <= 1
    U2 = list(small)
    def addsub(x):
        for y in x["a"]:
            addsub(y)
        if x not in U2:
            U2.append(x)
    for c in cmds:
        for key in ("t", "a", "b"):
            if key in c:
                addsub(c[key])
    for x in interesting + [t(F, t(F, t(F, a))) , t(H, t(F, b), a), t(F, t(H, b, a))]:
        addsub(x)
    univ = [dict(t=flat(x), args=[flat(y) for y in x["a"]]) for x in U2]
    return p, dict(prog=p.struct(), active=[], cmds=cmds, maxlen=maxlen, univ=univ), "EqIsCC"


def model_P3(maxlen=4):
    """P3: rewrites that create terms and a closure rule; run / insert / union interleaved."""
    p = Prog()
    A = p.add("A", "con", [], "E"); B = p.add("B", "con", [], "E")
    F = p.add("F", "con", ["E"], "E"); H = p.add("H", "con", ["E", "E"], "E")
    R = p.add("R", "con", ["E"], "RelSort0", rel=True)
    p.rsets.append(dict(name="rs0", kind="rules", subs=[]))
    p.rsets.append(dict(name="rs1", kind="rules", subs=[]))
    V = lambda n: {"v": n}
    T = lambda f, a, o: dict(k="tab", f=f, a=a, o=o)
    p.rules.append(dict(rs="rs0", name="comm", body=[T(H, [V(1), V(2)], V(3))],
                        head=[dict(k="union", l=V(3), r={"f": H, "a": [V(2), V(1)]})]))
    p.rules.append(dict(rs="rs0", name="ff", body=[T(F, [V(1)], V(2)), T(F, [V(2)], V(3))],
                        head=[dict(k="union", l=V(3), r=V(1))]))
    p.rules.append(dict(rs="rs1", name="rel", body=[T(F, [V(1)], V(2))], head=[dict(k="ins", t={"f": R, "a": [V(2)]})]))
    p.rules.append(dict(rs="rs1", name="grow", body=[T(R, [V(1)], {"w": 1}), T(H, [V(1), V(2)], V(3))],
                        head=[dict(k="ins", t={"f": F, "a": [V(3)]})]))
    t = lambda f, *a: {"f": f, "a": list(a)}
    a, b = t(A), t(B)
    cmds = [dict(k="ins", t=t(F, t(F, a))), dict(k="ins", t=t(H, a, b)), dict(k="ins", t=t(H, t(F, a), b)),
            dict(k="union", a=a, b=b), dict(k="union", a=t(F, a), b=b), dict(k="union", a=t(H, a, b), b=a),
            dict(k="run", s=dict(k="run", rs="rs0", until=[])), dict(k="run", s=dict(k="run", rs="rs1", until=[])),
            dict(k="run", s=dict(k="sat", b=[dict(k="run", rs="rs0", until=[])]))]
    return p, dict(prog=p.struct(), active=[1, 2, 3, 4], cmds=cmds, maxlen=maxlen, univ=[]), None


def model_P2(maxlen=4):
    """P2: lattice functions (min, set-union, or) with a propagating rule, unions collapsing keys, :no-merge."""
    p = Prog()
    A = p.add("A", "con", [], "E"); B = p.add("B", "con", [], "E"); C = p.add("C", "con", [], "E")
    F = p.add("F", "con", ["E"], "E")
    fm = p.add("fmin", "fn", ["E"], "i64", merge="min")
    fu = p.add("fset", "fn", ["E"], "SetI", merge="union")
    fn = p.add("fnm", "fn", ["E"], "i64", merge="none")
    p.rsets.append(dict(name="rs0", kind="rules", subs=[]))
    V = lambda n: {"v": n}
    T = lambda f, a, o: dict(k="tab", f=f, a=a, o=o)
    p.rules.append(dict(rs="rs0", name="prop", body=[T(F, [V(1)], V(2)), T(fm, [V(1)], V(3))],
                        head=[dict(k="set", f=fm, a=[V(2)], t={"p": "+", "a": [V(3), {"i": 1}]})]))
    p.rules.append(dict(rs="rs0", name="props", body=[T(F, [V(1)], V(2)), T(fu, [V(1)], V(3))],
                        head=[dict(k="set", f=fu, a=[V(2)], t=V(3))]))
    t = lambda f, *a: {"f": f, "a": list(a)}
    a, b, c = t(A), t(B), t(C)
    cmds = [dict(k="set", f=fm, a=[a], v={"i": 2}), dict(k="set", f=fm, a=[b], v={"i": 1}), dict(k="set", f=fm, a=[t(F, a)], v={"i": 0}),
            dict(k="set", f=fu, a=[a], v={"set": [1]}), dict(k="set", f=fu, a=[b], v={"set": [2]}),
            dict(k="set", f=fn, a=[a], v={"i": 1}), dict(k="set", f=fn, a=[b], v={"i": 2}),
            dict(k="union", a=a, b=b), dict(k="union", a=t(F, a), b=c), dict(k="ins", t=t(F, b)),
            dict(k="run", s=dict(k="run", rs="rs0", until=[]))]
    return p, dict(prog=p.struct(), active=[1, 2], cmds=cmds, maxlen=maxlen, univ=[]), None


def model_P4(maxlen=4):
    """P4: subsumption: a :subsume-style rewrite, top-level subsume, re-insertion, unions merging subsumed rows."""
    p = Prog()
    A = p.add("A", "con", [], "E"); B = p.add("B", "con", [], "E")
    F = p.add("F", "con", ["E"], "E"); G = p.add("G", "con", ["E"], "E")
    R = p.add("R", "con", ["E"], "RelSort0", rel=True)
    p.rsets.append(dict(name="rs0", kind="rules", subs=[]))
    V = lambda n: {"v": n}
    T = lambda f, a, o: dict(k="tab", f=f, a=a, o=o)
    p.rules.append(dict(rs="rs0", name="fg", body=[T(F, [V(1)], V(2))],
                        head=[dict(k="union", l=V(2), r={"f": G, "a": [V(1)]}), dict(k="subsume", f=F, a=[V(1)])]))
    p.rules.append(dict(rs="rs0", name="seen", body=[T(F, [V(1)], V(2))], head=[dict(k="ins", t={"f": R, "a": [V(1)]})]))
    t = lambda f, *a: {"f": f, "a": list(a)}
    a, b = t(A), t(B)
    cmds = [dict(k="ins", t=t(F, a)), dict(k="ins", t=t(F, b)), dict(k="subsume", f=F, a=[a]), dict(k="subsume", f=F, a=[b]),
            dict(k="union", a=a, b=b), dict(k="union", a=b, b=a), dict(k="ins", t=t(G, t(F, a))),
            dict(k="run", s=dict(k="run", rs="rs0", until=[]))]
    return p, dict(prog=p.struct(), active=[1, 2], cmds=cmds, maxlen=maxlen, univ=[]), None


def model_P5(maxlen=3):
    """P5: two rulesets sharing tables, a combined ruleset, a rule declared late; schedule laws as invariants."""
    p = Prog()
    A = p.add("A", "con", [], "E"); B = p.add("B", "con", [], "E")
    F = p.add("F", "con", ["E"], "E"); H = p.add("H", "con", ["E", "E"], "E")
    R = p.add("R", "con", ["E", "E"], "RelSort0", rel=True)
    p.rsets += [dict(name="rs0", kind="rules", subs=[]), dict(name="rs1", kind="rules", subs=[]),
                dict(name="comb", kind="comb", subs=["rs0", "rs1"])]
    V = lambda n: {"v": n}
    T = lambda f, a, o: dict(k="tab", f=f, a=a, o=o)
    W = {"w": 1}
    p.rules.append(dict(rs="rs0", name="edge", body=[T(H, [V(1), V(2)], V(3))], head=[dict(k="ins", t={"f": R, "a": [V(1), V(2)]})]))
    p.rules.append(dict(rs="rs0", name="trans", body=[T(R, [V(1), V(2)], W), T(R, [V(2), V(3)], W)],
                        head=[dict(k="ins", t={"f": R, "a": [V(1), V(3)]})]))
    p.rules.append(dict(rs="rs1", name="ff", body=[T(F, [V(1)], V(2)), T(F, [V(2)], V(3))], head=[dict(k="union", l=V(3), r=V(1))]))
    p.rules.append(dict(rs="rs1", name="sym", body=[T(R, [V(1), V(2)], W)], head=[dict(k="ins", t={"f": H, "a": [V(2), V(1)]})]))
    t = lambda f, *a: {"f": f, "a": list(a)}
    a, b = t(A), t(B)
    run = lambda rs: dict(k="run", rs=rs, until=[])
    rep = lambda n, *b: dict(k="rep", n=n, b=list(b))
    seq = lambda *b: dict(k="seq", b=list(b))
    sat = lambda *b: dict(k="sat", b=list(b))
    r0, r1, rc = run("rs0"), run("rs1"), run("comb")
    cmds = [dict(k="ins", t=t(H, a, b)), dict(k="ins", t=t(H, b, t(F, t(F, a)))), dict(k="ins", t=t(H, t(F, a), a)),
            dict(k="union", a=a, b=t(F, b)), dict(k="rule", r=4),
            dict(k="run", s=r0), dict(k="run", s=r1), dict(k="run", s=rc), dict(k="run", s=sat(r0))]
    laws = [[rep(2, r0), seq(r0, r0)], [rep(2, rep(2, r0)), rep(4, r0)], [rep(3, rc), seq(rc, rc, rc)],
            [seq(r0, seq(r1, r0)), seq(seq(r0, r1), r0)], [seq(r0, r1, r0), seq(seq(r0, r1), r0)],
            [seq(sat(r0), sat(r0)), sat(r0)], [rep(2, seq(r0, r1)), seq(r0, r1, r0, r1)],
            [rep(1, r0), r0], [rep(0, r0), seq()]]
    return p, dict(prog=p.struct(), active=[1, 2, 3], cmds=cmds, maxlen=maxlen, univ=[], laws=laws, sats=[r0, seq(r0, r1)]), None


def prog_PW():
    """PW: every lattice merge written from rule heads: the rows W*(batch, key, value) staged by
    top-level inserts are all applied in ONE iteration once (Go batch) is present, so one
    iteration writes a chosen multiset of values to one key (in-batch collisions), in the
    order the rows were inserted."""
    p = Prog()
    A = p.add("A", "con", [], "E"); B = p.add("B", "con", [], "E")
    fns = {}
    for m, out in (("min", "i64"), ("max", "i64"), ("or", "bool"), ("and", "bool"), ("union", "SetI"), ("inter", "SetI")):
        fns[m] = p.add("f" + m, "fn", ["E"], out, merge=m)
    Wi = p.add("Wi", "con", ["i64", "E", "i64"], "RelSort0", rel=True)
    Wb = p.add("Wb", "con", ["i64", "E", "bool"], "RelSort1", rel=True)
    Ws = p.add("Ws", "con", ["i64", "E", "SetI"], "RelSort2", rel=True)
    Go = p.add("Go", "con", ["i64"], "RelSort3", rel=True)
    p.rsets.append(dict(name="rs0", kind="rules", subs=[]))
    V = lambda n: {"v": n}
    T = lambda f, a, o: dict(k="tab", f=f, a=a, o=o)
    W = {"w": 1}
    for m, rel in (("min", Wi), ("max", Wi), ("or", Wb), ("and", Wb), ("union", Ws), ("inter", Ws)):
        p.rules.append(dict(rs="rs0", name="w" + m, body=[T(Go, [V(1)], W), T(rel, [V(1), V(2), V(3)], W)],
                            head=[dict(k="set", f=fns[m], a=[V(2)], t=V(3))]))
    return p, fns, dict(Wi=Wi, Wb=Wb, Ws=Ws, Go=Go, A=A, B=B)


def model_PW(maxlen=4):
    p, fns, d = prog_PW()
    t = lambda f, *a: {"f": f, "a": list(a)}
    a, b = t(d["A"]), t(d["B"])
    I = lambda n: {"i": n}
    cmds = [dict(k="ins", t=t(d["Wi"], I(1), a, I(v))) for v in (0, 1, 2)]
    cmds += [dict(k="ins", t=t(d["Wi"], I(1), b, I(1)))]
    cmds += [dict(k="ins", t=t(d["Ws"], I(1), a, {"set": s})) for s in ([1], [2], [1, 2])]
    cmds += [dict(k="ins", t=t(d["Wb"], I(1), a, I(v))) for v in (0, 1)]
    cmds += [dict(k="ins", t=t(d["Go"], I(1))), dict(k="union", a=a, b=b),
             dict(k="run", s=dict(k="run", rs="rs0", until=[]))]
    return p, dict(prog=p.struct(), active=list(range(1, 7)), cmds=cmds, maxlen=maxlen, univ=[]), None


def writes_sessions(n, seed):
    """seeded arrangements: a multiset of writes per key, a permutation, a split into batches
    (rule iterations) and top-level sets, optionally a union collapsing the two keys"""
    import random
    r = random.Random(seed)
    p, fns, d = prog_PW()
    t = lambda f, *a: {"f": f, "a": list(a)}
    I = lambda n: {"i": n}
    keys = [t(d["A"]), t(d["B"])]
    out = []
    for k in range(n):
        m = r.choice(["min", "max", "or", "and", "union", "inter"])
        rel = {"min": "Wi", "max": "Wi", "or": "Wb", "and": "Wb", "union": "Ws", "inter": "Ws"}[m]
        def val():
            if rel == "Wi":
                return I(r.randrange(4))
            if rel == "Wb":
                return I(r.randrange(2))
            return {"set": sorted(set(r.randrange(4) for _ in range(r.randrange(0, 3))))}
        nw = r.choice([2, 3, 3, 4, 5])
        writes = [(r.choice([1, 1, 2]), r.choice(keys), val()) for _ in range(nw)]
        cmds = []
        for (bt, key, v) in writes:
            if r.random() < 0.2:
                cmds.append(dict(k="set", f=fns[m], a=[key], v=v))
            else:
                cmds.append(dict(k="ins", t=t(d[rel], I(bt), key, v)))
        run = dict(k="run", s=dict(k="run", rs="rs0", until=[]))
        tail = [dict(k="ins", t=t(d["Go"], I(1))), run, dict(k="ins", t=t(d["Go"], I(2))), run]
        if r.random() < 0.5:
            tail.insert(r.randrange(len(tail) + 1), dict(k="union", a=keys[0], b=keys[1]))
        cmds += tail
        m_ = dict(prog=p.struct(), active=list(range(1, 7)), cmds=cmds)
        out.append(replay_session(p, m_, list(range(1, len(cmds) + 1)), "c05w-%d" % k))
    return out


MODELS = {"P5": model_P5, "PW": model_PW, "P1": model_P1, "P2": model_P2, "P3": model_P3, "P4": model_P4}


def model_PS(maxlen=4):
    """PS: a monotone, terminating program for the custom-scheduler model (C18): commutativity, F(F x) = x,
    a relation derived from F; inserts and unions interleaved with scheduler steps."""
    p = Prog()
    A = p.add("A", "con", [], "E"); B = p.add("B", "con", [], "E")
    F = p.add("F", "con", ["E"], "E"); H = p.add("H", "con", ["E", "E"], "E")
    R = p.add("R", "con", ["E"], "RelSort0", rel=True)
    p.rsets.append(dict(name="rs0", kind="rules", subs=[]))
    V = lambda n: {"v": n}
    T = lambda f, a, o: dict(k="tab", f=f, a=a, o=o)
    p.rules.append(dict(rs="rs0", name="comm", body=[T(H, [V(1), V(2)], V(3))],
                        head=[dict(k="union", l=V(3), r={"f": H, "a": [V(2), V(1)]})]))
    p.rules.append(dict(rs="rs0", name="ff", body=[T(F, [V(1)], V(2)), T(F, [V(2)], V(3))],
                        head=[dict(k="union", l=V(3), r=V(1))]))
    p.rules.append(dict(rs="rs0", name="rel", body=[T(F, [V(1)], V(2))], head=[dict(k="ins", t={"f": R, "a": [V(2)]})]))
    t = lambda f, *a: {"f": f, "a": list(a)}
    a, b = t(A), t(B)
    cmds = [dict(k="ins", t=t(F, t(F, a))), dict(k="ins", t=t(H, a, b)), dict(k="ins", t=t(H, t(F, a), b)),
            dict(k="union", a=a, b=b), dict(k="union", a=t(F, a), b=b)]
    hv = [sessgen.head_free_vars(r) for r in p.rules]
    return p, dict(prog=p.struct(), active=[1, 2, 3], cmds=cmds, maxlen=maxlen, univ=[], rs="rs0", hv=hv), None


MODELS["PS"] = model_PS


def write_model(name, path, **kw):
    p, m, inv = MODELS[name](**kw)
    m.setdefault("laws", [])
    m.setdefault("sats", [])
    with open(path, "w") as f:
        f.write(json.dumps(m, separators=(",", ":")) + "\n")
    return p, m, inv


def replay_session(p, m, idxs, sid, mode=None):
    """session (for the harness) issuing the commands of one REPLAY line"""
    cmds = [m["cmds"][i - 1] for i in idxs]
    setup = sessgen.decl_text(p) + [sessgen.rule_text(p, p.rules[i - 1]) for i in m["active"]]
    steps = [dict(c=c, text=sessgen.cmd_text(p, c)) for c in cmds]
    return dict(id=sid, mode=mode or dict(threads=1, seminaive=True, enc="plain"), prog=m["prog"], active=m["active"],
                setup=setup, steps=steps, tables=[fn["name"] for fn in p.funcs])
