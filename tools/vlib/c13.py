"""C13 -- subsumed rows stop matching and extracting, forever; deleted rows are gone."""
from . import family, sess

PROFILES = [
    dict(fns=["min"], nrules=4, nsets=1, rels=2, unary=2, ncmds=16, checks=0.3, sched_depth=1, depth=2, subsume=0.7),
    dict(fns=[], nrules=4, nsets=2, rels=2, unary=2, ncmds=16, checks=0.3, sched_depth=2, growth=False, subsume=0.6, pushpop=0.4),
]
# delete is not monotone: semi-naive evaluation legitimately differs from the naive
# semantics of EggAbs once rows are removed, so the delete family runs with
# seminaive = false (and never under saturate).
DEL_PROFILES = [dict(fns=["max"], nrules=4, nsets=2, rels=2, unary=2, ncmds=16, checks=0.3, sched_depth=1, growth=False,
                     subsume=0.4, delete=0.5)]
CONFIGS = [(family.SEQ, None), (dict(threads=4, seminaive=True, enc="plain"), sess.PAR0)]


NAIVE = dict(threads=1, seminaive=False, enc="plain")


def check(tier):
    return family.check_groups(
        "C13", tier,
        [dict(fam="c13", model_specs=[("P4", "MC_EggAbs.cfg", 4, 5)], profiles=PROFILES, configs=CONFIGS, nrand=(40, 500)),
         dict(fam="c13del", model_specs=[], profiles=DEL_PROFILES, configs=[(NAIVE, None)], nrand=(40, 500))],
        ["delete is generated on relation rows only (so no class loses its last finite term) and checked with seminaive=false, "
         "because deletion is not monotone and semi-naive evaluation legitimately differs from the naive semantics afterwards",
         "extraction through subsumed rows is checked by C07"])
