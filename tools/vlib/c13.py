"""C13 -- subsumed rows stop matching and extracting, forever; deleted rows are gone."""
from . import family, sess

PROFILES = [
    dict(fns=["min"], nrules=4, nsets=1, rels=2, unary=2, ncmds=16, checks=0.3, sched_depth=1, depth=2, subsume=0.7),
    dict(fns=[], nrules=4, nsets=2, rels=2, unary=2, ncmds=16, checks=0.3, sched_depth=1, growth=False, subsume=0.6, delete=0.3, pushpop=0.4),
]
CONFIGS = [(family.SEQ, None), (dict(threads=4, seminaive=True, enc="plain"), sess.PAR0)]


def check(tier):
    return family.check_family(
        "C13", tier, "c13", [("P4", "MC_EggAbs.cfg", 4, 5)], PROFILES, CONFIGS, (40, 500),
        ["delete is generated on relation rows only (so no class loses its last finite term)",
         "extraction through subsumed rows is checked by C07"])
