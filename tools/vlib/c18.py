"""C18 -- custom schedulers are offered every match, lose none, and keep the DB sound."""
from . import family, sess

PROFILES = [
    dict(fns=["min"], nrules=4, nsets=2, rels=2, ncmds=16, checks=0.15, sched_depth=1, depth=2, growth=False, sched=0.45, late_rules=0.3),
    dict(fns=[], nrules=4, nsets=1, rels=2, unary=2, ncmds=16, checks=0.15, sched_depth=1, depth=2, growth=True, sched=0.5, subsume=0.3, novar_rules=1),
    dict(fns=["max"], consts=2, unary=1, binary=1, nrules=3, nsets=1, rels=1, ncmds=18, checks=0.1, sched_depth=1, depth=2, growth=False, sched=0.6, panic=0.1, novar_rules=1),
]
PAR = dict(threads=4, seminaive=True, enc="plain")


def check(tier):
    return family.check_groups(
        "C18", tier,
        [dict(fam="c18", model_specs=[], profiles=PROFILES, configs=[(family.SEQ, None), (PAR, sess.PAR0)], nrand=(40, 700))],
        ["the scheduler policy (which of the offered matches to choose, whether to keep seeking) is drawn by the session generator and executed by an "
         "instrumented Scheduler; the specification does not choose, it checks the four obligations of SchedExt.tla for what was offered and chosen: "
         "nothing invented / nothing resting on a subsumed row among new matches, unchosen matches carried over, every match of the body offered or "
         "already applied when seeking, and the database after the step equal to running the heads for exactly the chosen matches",
         "between steps the sessions perform unions, inserts, sets, subsumes and built-in runs; matches are compared by class NAME re-evaluated in the "
         "current database (so a match offered before a union and applied after it is interpreted modulo that union); delete-free, no containers, no push/pop",
         "after a step that fails at run time the scheduler obligations are no longer evaluated for that session (raw-state invariants still are)"])
