"""C18 -- custom schedulers are offered every match, lose none, and keep the DB sound."""
import json, os
from . import core, family, sess, models, sessgen

PROFILES = [
    dict(fns=["min"], nrules=4, nsets=2, rels=2, ncmds=16, checks=0.15, sched_depth=1, depth=2, growth=False, sched=0.45, late_rules=0.3),
    dict(fns=[], nrules=4, nsets=1, rels=2, unary=2, ncmds=16, checks=0.15, sched_depth=1, depth=2, growth=True, sched=0.5, subsume=0.3, novar_rules=1),
    dict(fns=["max"], consts=2, unary=1, binary=1, nrules=3, nsets=1, rels=1, ncmds=18, checks=0.1, sched_depth=1, depth=2, growth=False, sched=0.6, panic=0.1, novar_rules=1),
]
PAR = dict(threads=4, seminaive=True, enc="plain")
MODEL_INFO = {}


def model_sessions(tier):
    """TLC on MC_SchedExt (model program PS): invariants of the scheduler semantics on every reachable state,
    and one REPLAY line per transition; the maximal histories become sessions for the real engine."""
    wd = core.workdir("c18_model")
    mpath = os.path.join(wd, "PS.json")
    p, m, _ = models.write_model("PS", mpath, maxlen=3 if tier == "quick" else 4)
    res = core.run_tlc("MC_SchedExt", cfg="MC_SchedExt.cfg", workers=8 if tier == "quick" else 12, env={"MODEL": mpath}, timeout=3300,
                       coverage=False, xmx="8g")
    MODEL_INFO.update(states=res.distinct, generated=res.generated, violated=res.invariant, text=res.error_text()[:1500] if res.invariant else "")
    if res.invariant is None and not res.noerror:
        raise core.ToolError("TLC did not finish on MC_SchedExt: %s" % res.error_text()[:600])
    replays = []
    for line in res.printed:
        if line.startswith('<<"REPLAY"'):
            js = line[line.index(',') + 1:].strip()
            replays.append(json.loads(json.loads(js[:js.rindex('>>')].strip())))
    if not replays and res.invariant is None:
        raise core.ToolError("no REPLAY lines from MC_SchedExt")
    keyed = {json.dumps(r, sort_keys=True): r for r in replays}
    strs = set(keyed)
    pre = set()
    for r in replays:
        for k in range(1, len(r)):
            pre.add(json.dumps(r[:k], sort_keys=True))
    maximal = [keyed[k] for k in sorted(strs - pre)]
    if not any("s" in st for r in maximal for st in r):
        raise core.ToolError("vacuity: MC_SchedExt took no scheduler step")
    MODEL_INFO.update(transitions=len(replays), replayed_histories=len(maximal))
    setup = sessgen.decl_text(p) + [sessgen.rule_text(p, p.rules[i - 1]) for i in m["active"]]
    out = []
    for k, r in enumerate(maximal):
        steps = []
        for st in r:
            if "c" in st:
                c = m["cmds"][st["c"] - 1]
                steps.append(dict(c=c, text=sessgen.cmd_text(p, c)))
            else:
                rules = []
                # a TLA+ function over 1..n is printed as a JSON array, over other rule sets as an object
                pol = st["s"] if isinstance(st["s"], dict) else {str(i + 1): x for i, x in enumerate(st["s"])}
                sk = st["k"] if isinstance(st["k"], dict) else {str(i + 1): x for i, x in enumerate(st["k"])}
                for ri_s, mode in sorted(pol.items()):
                    ri = int(ri_s)
                    rule = p.rules[ri - 1]
                    hv = m["hv"][ri - 1]
                    rules.append(dict(idx=ri, name=rule["name"], vars=hv, sorts=["E"] * len(hv),
                                      mode="mask" if mode == "one" else mode, mask=1, seek=sk[ri_s]))
                c = dict(k="sstep", rs=m["rs"], rules=rules)
                steps.append(dict(c=c, text="(sstep %s %s)" % (m["rs"], " ".join("%s:%s" % (q["name"], q["mode"]) for q in rules))))
        out.append(dict(id="c18-PS-%d" % k, mode=dict(threads=1, seminaive=True, enc="plain"), prog=m["prog"], active=m["active"],
                        setup=setup, steps=steps, tables=[fn["name"] for fn in p.funcs]))
    if tier == "quick":
        import random
        random.Random(core.seed()).shuffle(out)
        out = out[:150]
    return out


def post(V, results, detail):
    detail["models"]["MC_SchedExt/PS"] = dict(MODEL_INFO)
    detail["extra_states"] = MODEL_INFO.get("states", 0)
    detail["extra_transitions"] = MODEL_INFO.get("transitions", 0)
    if MODEL_INFO.get("violated"):
        V.violation("model:SchedExt:%s" % MODEL_INFO["violated"], "SchedExt violates %s on model program PS\n%s" % (MODEL_INFO["violated"], MODEL_INFO["text"]),
                    dict(kind="model", module="MC_SchedExt", invariant=MODEL_INFO["violated"]))


def check(tier):
    old = sessgen.PATTERN_FIRST[0]
    sessgen.PATTERN_FIRST[0] = True
    try:
        return family.check_groups(
            "C18", tier,
            [dict(fam="c18", model_specs=[], profiles=PROFILES, configs=[(family.SEQ, None), (PAR, sess.PAR0)], nrand=(40, 700)),
             dict(fam="c18m", model_specs=[], profiles=[], configs=[(family.SEQ, None)], nrand=(0, 0), extra=model_sessions)],
            ["the scheduler policy (which of the offered matches to choose, whether to keep seeking) is drawn by the session generator (or by TLC, "
             "for the histories of MC_SchedExt) and executed by an instrumented Scheduler; the specification does not choose, it checks the obligations "
             "of SchedExt.tla for what was offered and chosen: nothing invented / nothing resting on a subsumed row among new matches, unchosen matches "
             "carried over, every match of the body offered or already applied when seeking, and the database after the step equal to running the heads "
             "for exactly the chosen matches",
             "between steps the sessions perform unions, inserts, sets, subsumes and built-in runs; matches are compared by class NAME re-evaluated in the "
             "current database (so a match offered before a union and applied after it is interpreted modulo that union); delete-free, no containers, no push/pop",
             "MC_SchedExt checks on every reachable state of model program PS (policies all/none/one x seek per rule) that choosing everything is one built-in "
             "iteration and that any delay followed by choosing everything reaches the built-in saturation of the inputs (confluent, monotone program)",
             "after a step that fails at run time the scheduler obligations are no longer evaluated for that session (raw-state invariants still are)"],
            post=post)
    finally:
        sessgen.PATTERN_FIRST[0] = old
