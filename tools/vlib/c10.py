"""C10 -- schedules mean what they say: run, repeat, saturate, seq, until."""
from . import family

PROFILES = [
    dict(fns=["min"], nrules=4, nsets=2, rels=2, ncmds=14, checks=0.1, sched_depth=3, depth=2, growth=False),
    dict(fns=[], nrules=4, nsets=2, rels=2, unary=2, ncmds=14, checks=0.1, sched_depth=3, depth=2, growth=True, late_rules=0.4),
]


def check(tier):
    return family.check_groups(
        "C10", tier,
        [dict(fam="c10", model_specs=[("P5", "MC_EggAbs_Laws.cfg", 3, 4)], profiles=PROFILES, configs=[(family.SEQ, None)], nrand=(60, 800))],
        ["the algebraic laws (run n = n iterations, repeat a (repeat b s) = repeat a*b s, saturate idempotent and a fixpoint, seq associative) "
         "are checked by TLC as invariants of the specification's schedule interpreter on every reachable database of model program P5; "
         "the engine is bound to that interpreter by validating the database and RunReport.updated after every run-schedule command "
         "(nested repeat/saturate/seq/:until, combined rulesets, rules declared late)",
         "delete-free programs"])
