"""C12 (first clause) -- every provable fact gets a proof the checker accepts, and only those."""
import copy, random
from . import core, family, sessgen

PROOF = dict(threads=1, seminaive=True, enc="proof")
PROFILES = [
    dict(fns=[], nrules=3, nsets=1, rels=1, unary=1, binary=1, ncmds=10, checks=0.0, sched_depth=1, depth=2, growth=False),
    dict(fns=[], nrules=4, nsets=2, rels=2, unary=2, binary=0, ncmds=10, checks=0.0, sched_depth=1, depth=2, growth=False, subsume=0.3),
]


def sessions(tier):
    """random sessions in the fragment the proof encoding supports, with (prove ..) steps for facts over the
    session's terms after every few commands: presence of a term, equality of two terms -- true and false ones"""
    n = 8 if tier == "quick" else 200
    out = []
    for pi, prof in enumerate(PROFILES):
        g = sessgen.Gen(core.seed() * 1000 + 120 + pi, prof)
        r = random.Random(core.seed() * 77 + pi)
        for k in range(n):
            s = g.session("c12-r%d-%d" % (pi, k))
            p = rebuild_prog(s)
            terms = ground_terms(s)
            # relation facts over those terms (mostly derived by rules): goals that need the rules
            rels = [i + 1 for i, fn in enumerate(s["prog"]["funcs"]) if fn.get("rel") and fn["ins"] == ["E"]]
            relfacts = [{"f": f, "a": [t]} for f in rels for t in terms[:6]]
            steps = []
            for st in s["steps"]:
                steps.append(st)
                if terms and st["c"]["k"] in ("run", "union", "ins", "subsume") and r.random() < 0.7:
                    for _ in range(r.randrange(1, 4)):
                        if relfacts and r.random() < 0.35:
                            c = sessgen.check_present(p, r.choice(relfacts))
                        elif r.random() < 0.6 and len(terms) >= 2:
                            a, b = r.sample(terms, 2)
                            c = sessgen.check_eq(p, a, b)
                        else:
                            c = sessgen.check_present(p, r.choice(terms))
                        c = dict(c, k="prove")
                        steps.append(dict(c={k2: v for k2, v in c.items() if k2 != "text"}, text="(prove %s)" % c["text"], raw="nodump"))
            s["steps"] = steps
            out.append(s)
    return out


def guard_sessions(tier):
    """directed: rules whose bodies have a primitive guard on an i64 argument; facts derived only through them"""
    from .sessgen import Prog
    r = random.Random(core.seed() * 31 + 7)
    out = []
    for k in range(4 if tier == "quick" else 80):
        p = Prog()
        A = p.add("A", "con", [], "E")
        N = p.add("N", "con", ["i64"], "E")
        R = p.add("R", "con", ["E"], "RelR", rel=True)
        S = p.add("S", "con", ["E"], "RelS", rel=True)
        p.rsets.append(dict(name="rs0", kind="rules", subs=[]))
        V = lambda n: {"v": n}
        bound = r.randrange(1, 4)
        op1, op2 = r.choice(["lt", "le"]), r.choice(["neq", "lt"])
        p.rules.append(dict(rs="rs0", name="small", body=[dict(k="tab", f=N, a=[V(1)], o=V(2)), dict(k="cmp", op=op1, l=V(1), r={"i": bound})],
                            head=[dict(k="ins", t={"f": R, "a": [V(2)]})]))
        p.rules.append(dict(rs="rs0", name="other", body=[dict(k="tab", f=N, a=[V(1)], o=V(2)), dict(k="cmp", op=op2, l=V(1), r={"i": 0})],
                            head=[dict(k="ins", t={"f": S, "a": [V(2)]})]))
        p.rules.append(dict(rs="rs0", name="plain", body=[dict(k="tab", f=N, a=[V(1)], o=V(2))], head=[dict(k="union", l=V(2), r={"f": N, "a": [V(1)]})]))
        cmds = [dict(k="ins", t={"f": A, "a": []})]
        vals = r.sample(range(0, 5), 3)
        for v in vals:
            cmds.append(dict(k="ins", t={"f": N, "a": [{"i": v}]}))
        cmds.append(dict(k="run", s=dict(k="run", rs="rs0", until=[])))
        steps = [dict(c=c, text=sessgen.cmd_text(p, c)) for c in cmds]
        for v in vals + [7]:
            for rel in (R, S):
                c = sessgen.check_present(p, {"f": rel, "a": [{"f": N, "a": [{"i": v}]}]})
                steps.append(dict(c={k2: x for k2, x in dict(c, k="prove").items() if k2 != "text"}, text="(prove %s)" % c["text"], raw="nodump"))
        out.append(dict(id="c12-g%d" % k, mode=dict(PROOF), prog=p.struct(), active=[1, 2, 3],
                        setup=sessgen.decl_text(p) + [sessgen.rule_text(p, x) for x in p.rules], steps=steps, tables=[fn["name"] for fn in p.funcs]))
    return out


NEG = {"lt": ("le", True), "le": ("lt", True), "neq": ("eq", False), "eq": ("neq", False)}


def negate_guards(p, rule):
    r2 = copy.deepcopy(rule)
    for at in r2["body"]:
        if at.get("k") == "cmp":
            op, swap = NEG[at["op"]]
            at["op"] = op
            if swap:
                at["l"], at["r"] = at["r"], at["l"]
    return sessgen.rule_text(p, r2)


def rebuild_prog(s):
    p = sessgen.Prog()
    p.funcs = s["prog"]["funcs"]
    p.rules = s["prog"]["rules"]
    p.rsets = s["prog"]["rsets"]
    p.csorts = s["prog"].get("sorts", [])
    return p


def ground_terms(s):
    seen, out = set(), []

    def walk(t):
        if isinstance(t, dict):
            if "f" in t and "a" in t and all(isinstance(x, dict) for x in t["a"]):
                fn = s["prog"]["funcs"][t["f"] - 1]
                if fn["kind"] == "con" and fn["out"] == "E" and not any("v" in x or "i" in x for x in t["a"]):
                    key = repr(t)
                    if key not in seen:
                        seen.add(key)
                        out.append(t)
            for v in t.values():
                walk(v)
        elif isinstance(t, list):
            for x in t:
                walk(x)
    for st in s["steps"]:
        walk(st["c"])
    return out[:12]


def checker_cases(sessions, events, per_session=5):
    """for successful (prove ..) steps: the source program up to that step, and the reference programs
    the checker is to validate the extracted proof against"""
    by_id = {s["id"] + "@t1-proof": s for s in sessions}
    cases = []
    cur = None
    oktexts = []
    count = 0
    for e in events:
        if e["e"] == "decl":
            cur = by_id.get(e["id"])
            oktexts = []
            count = 0
            continue
        if cur is None:
            continue
        if e["e"] == "cmd" and e["res"] == "ok" and e["c"]["k"] in ("ins", "union", "set", "subsume", "run", "rule", "fdecl"):
            oktexts.append((e["c"]["k"], e["text"]))
        if e["e"] == "rawcmd" and e["c"]["k"] == "prove" and e["res"] == "ok" and count < per_session:
            count += 1
            decls = [t for t in cur["setup"] if not t.startswith("(rule")]
            rules = [t for t in cur["setup"] if t.startswith("(rule")]
            real = decls + rules + [t for _, t in oktexts]
            nofacts = decls + rules + [t for k, t in oktexts if k in ("run", "rule", "fdecl")]
            norules = decls + [t for k, t in oktexts if k != "rule"]
            variants = dict(orig="\n".join(real), nofacts="\n".join(nofacts), norules="\n".join(norules))
            p = rebuild_prog(cur)
            neg = {sessgen.rule_text(p, x): negate_guards(p, x) for x in p.rules if any(a.get("k") == "cmp" for a in x["body"])}
            if neg:
                variants["guards"] = "\n".join(neg.get(t, t) for t in real)
            cases.append(dict(id=e_id(cur), step=e["i"], real="\n".join(real), goal=e["text"], variants=variants))
    return cases


def e_id(s):
    return s["id"] + "@t1-proof"


def check(tier):
    import json, os, time
    from . import sess
    t0 = time.time()
    V = core.Verdict("C12")
    ss = sessions(tier) + guard_sessions(tier)
    for s in ss:
        s["mode"] = PROOF
        s["cmp"] = 0
        s["id"] = s["id"] + "@t1-proof"
    for s in ss:
        sess.SESSIONS[s["id"]] = (s, None)
    trace = sess.run_sessions(ss, "C12_c12")
    events = core.read_ndjson(trace)
    for s in ss:
        s["id"] = s["id"][:-len("@t1-proof")]
    cases = checker_cases(ss, events)
    wd = os.path.join(core.WORK, "C12_c12")
    cin, cout = os.path.join(wd, "prove_in.ndjson"), os.path.join(wd, "prove_out.ndjson")
    core.write_ndjson(cin, cases)
    core.conform(["prove", "--in", cin, "--out", cout], timeout=3000)
    verdicts = {(v["id"], v["step"]): v for v in core.read_ndjson(cout)}
    # join the checker's verdicts onto the prove events (by session id and step index)
    cur = None
    nv = 0
    tally = {}
    for e in events:
        if e["e"] == "decl":
            cur = e["id"]
        elif e["e"] == "rawcmd" and (cur, e["i"]) in verdicts:
            v = verdicts[(cur, e["i"])]
            if "setup-failed" in v["pv"].values():
                continue                       # the reference run could not be set up: no verdict, counted below
            e["pv"] = v["pv"]
            nv += 1
            for k, x in v["pv"].items():
                tally[k + ":" + x] = tally.get(k + ":" + x, 0) + 1
    core.write_ndjson(trace, events)
    events, bads, diffs = sess.split_validate(trace, "C12_c12", chunks=8, module="Proof_Trace", timeout=3000)
    nb = sess.report(V, "c12", [("t1-proof", events, bads, diffs)])
    proves = [e for e in events if e["e"] == "rawcmd"]
    if not proves or not any(e["res"] == "ok" for e in proves) or not any(e["res"] == "err" for e in proves):
        raise core.ToolError("vacuity: the sessions need both provable and unprovable facts")
    if nv == 0:
        raise core.ToolError("vacuity: no checker verdict was obtained")
    detail = dict(sessions=len(ss), events=len(events), prove_commands=len(proves), proved=sum(1 for e in proves if e["res"] == "ok"),
                  not_proved=sum(1 for e in proves if e["res"] == "err"), checker_cases=len(cases), checker_verdicts=nv, verdicts=tally,
                  setup_failed=len(cases) - nv, bad_lines=nb)
    coverage = dict(states=1, transitions=1, traces_validated_against_impl=len(ss), evaluations=len(proves),
                    samples=[dict(text=e["text"], res=e["res"], pv=e.get("pv")) for e in proves[:6]], exhaustive=False, detail=detail,
                    rule="no TLC model-checking run of its own (the database oracle EggAbs is model-checked under C01/C03/C10); every session trace is validated by Proof_Trace")
    rc = V.finish()
    core.write_evidence("C12", tier, "model_checking", coverage, time.time() - t0, len(V.violations),
                        ["(prove facts) is issued for true and false facts over the session's terms (presence, equality); it must succeed exactly when the facts match "
                         "as a rule body in the specification's database, and never panic; since prove re-checks the extracted proof before and after simplification, "
                         "success also means the in-tree checker accepted the proof against the original program",
                         "checker soundness is sampled through set_proof_checking_program: the proof of a provable fact must be rejected against the program without "
                         "its top-level facts, against the program without its rules when the fact does not follow from the facts alone, and against the program whose "
                         "rules have their primitive guards negated when the fact needs a guarded rule; single-step mutations of the proof object are NOT covered "
                         "(Proof.tla, the calculus, was not built)",
                         "constructors, relations, rules with insert/union heads, subsume, schedules; no functions, containers, push/pop"])
    return rc
