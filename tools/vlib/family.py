"""Skeleton shared by the session-level properties: model-check EggAbs on model
programs (exhaustively, with the property's invariants), replay the transition
cover on the real engine, add seeded random sessions, run everything under the
property's configurations, validate every trace with EggAbs_Trace, write
evidence."""
import json, os, time
from . import core, sess, models, sessgen

SEQ = dict(threads=1, seminaive=True, enc="plain")


def model_phase(V, pid, name, cfg, maxlen, workers=12, timeout=1700, limit=None, **kw):
    """TLC on MC_EggAbs for model program `name`; returns (result, program, model, replays)."""
    wd = os.path.join(core.WORK, "%s_model_%s" % (pid, name))
    os.makedirs(wd, exist_ok=True)
    mpath = os.path.join(wd, name + ".json")
    p, m, inv = models.write_model(name, mpath, maxlen=maxlen, **kw)
    res = core.run_tlc("MC_EggAbs", cfg=cfg, workers=workers, env={"MODEL": mpath}, timeout=timeout, coverage=False,
                       metadir=core.workdir("tlc_%s_%s" % (pid, name)))
    if res.invariant:
        V.violation("model:%s:%s" % (name, res.invariant),
                    "EggAbs violates %s on model program %s\n%s" % (res.invariant, name, res.error_text()[:1500]),
                    dict(kind="model", module="MC_EggAbs", model=name, invariant=res.invariant))
    elif not res.noerror:
        raise core.ToolError("TLC did not finish on MC_EggAbs/%s: %s" % (name, res.error_text()[:800]))
    replays = []
    for line in res.printed:
        if line.startswith('<<"REPLAY"'):
            js = line[line.index(',') + 1:].strip()
            replays.append(json.loads(json.loads(js[:js.rindex('>>')].strip())))
    if not replays:
        raise core.ToolError("no REPLAY lines from MC_EggAbs/%s" % name)
    kinds = {m["cmds"][i - 1]["k"] for r in replays for i in r}
    want = {c["k"] for c in m["cmds"]}
    if kinds != want:
        raise core.ToolError("vacuity: command kinds never taken in %s: %s" % (name, want - kinds))
    return res, p, m, replays


def maximal(replays):
    """histories that are not a proper prefix of another one: replaying them passes
    through every transition of the cover (each prefix is checked step by step)."""
    s = {tuple(r) for r in replays}
    pre = {r[:k] for r in s for k in range(1, len(r))}
    return [list(r) for r in sorted(s - pre)]


def check_family(pid, tier, fam, model_specs, profiles, configs, nrand, assumptions, extra_sessions=None,
                 chunks=10, post=None):
    return check_groups(pid, tier, [dict(fam=fam, model_specs=model_specs, profiles=profiles, configs=configs,
                                         nrand=nrand, extra=extra_sessions)], assumptions, chunks=chunks, post=post)


def check_groups(pid, tier, groups, assumptions, chunks=10, post=None, module="EggAbs_Trace"):
    """groups: [dict(fam, model_specs=[(model name, cfg, quick maxlen, thorough maxlen)],
                     profiles=[generator profile], nrand=(quick, thorough) sessions per profile,
                     configs=[(mode, env)], extra=[sessions])]"""
    t0 = time.time()
    V = core.Verdict(pid)
    states = trans = 0
    detail = {"models": {}, "groups": {}}
    all_results = []
    nsess = 0
    nb = 0
    for g in groups:
        fam, configs = g["fam"], g["configs"]
        sessions = []
        for name, cfg, qlen, tlen in g.get("model_specs", []):
            res, p, m, replays = model_phase(V, pid, name, cfg, qlen if tier == "quick" else tlen)
            states += res.distinct
            trans += len(replays)
            mx = maximal(replays)
            detail["models"][name] = dict(states=res.distinct, transitions=len(replays), replayed_histories=len(mx),
                                          maxlen=qlen if tier == "quick" else tlen, invariants=cfg)
            for k, r in enumerate(mx):
                sessions.append(models.replay_session(p, m, r, "%s-%s-%d" % (fam, name, k)))
        n = g["nrand"][0] if tier == "quick" else g["nrand"][1]
        for pi, prof in enumerate(g.get("profiles", [])):
            gen = sessgen.Gen(core.seed() * 1000 + pi, prof)
            for k in range(n):
                sessions.append(gen.session("%s-r%d-%d" % (fam, pi, k)))
        if g.get("extra"):
            sessions += g["extra"](tier) if callable(g["extra"]) else g["extra"]
        results = sess.run_family(pid + "_" + fam, sessions, configs, chunks=chunks, module=g.get("module", module))
        nb += sess.report(V, fam, results)
        if g.get("post"):
            g["post"](V, results, sessions, detail)
        all_results += results
        nsess += len(sessions) * len(configs)
        detail["groups"][fam] = dict(sessions=len(sessions), configs=[sess.mode_tag(m, e) for m, e in configs])
    if post:
        post(V, all_results, detail)
    states += detail.pop("extra_states", 0)
    trans += detail.pop("extra_transitions", 0)
    results = all_results
    nev = sum(len(ev) for _, ev, _, _ in results)
    dn = len({json.dumps(e["tabs"], sort_keys=True) for _, ev, _, _ in results for e in ev
              if e["e"] == "cmd" and sum(1 for t in e["tabs"] if t) >= 2})
    ev0 = results[0][1]
    rs = [i for i, e in enumerate(ev0) if e["e"] == "decl" and "-r" in e["id"]]
    st = rs[0] if rs else 0
    samp = [e.get("text") + " => " + e.get("res") for e in ev0[st + 1: st + 9] if e["e"] == "cmd"]
    detail.update(harness=dict(sess.STATS))
    detail.update(events=nev, bad_lines=nb,
                  kinds={k: sum(1 for _, ev, _, _ in results for e in ev if e["e"] == "cmd" and e["c"]["k"] == k)
                         for k in ("ins", "union", "set", "subsume", "delete", "run", "check", "push", "pop", "rule", "bad")},
                  failed_commands=sum(1 for _, ev, _, _ in results for e in ev if e["e"] == "cmd" and e["res"] != "ok" and e["c"]["k"] != "check"))
    coverage = dict(states=max(states, 1), transitions=max(trans, 1), traces_validated_against_impl=nsess,
                    samples=[dict(kind="validated session (first commands)", commands=samp)],
                    evaluations=nsess, distinct_nontrivial=dn,
                    rule="sessions = maximal histories of the transition cover of MC_EggAbs on each model program + seeded random sessions, "
                         "each run under every configuration of its group; distinct_nontrivial = distinct logged raw databases with >= 2 non-empty tables",
                    exhaustive=False, detail=detail)
    rc = V.finish()
    core.write_evidence(pid, tier, "model_checking", coverage, time.time() - t0, len(V.violations), assumptions)
    return rc
