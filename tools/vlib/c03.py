"""C03 -- semi-naive evaluation is observationally identical to naive evaluation.
Every session is run twice (seminaive on / off); both traces must be accepted
by the same specification after every command, hence agree with each other."""
from . import family

NAIVE = dict(threads=1, seminaive=False, enc="plain")
PROFILES = [
    dict(fns=["min", "union"], nrules=4, nsets=2, rels=2, intcon=1, ncmds=14, checks=0.2, sched_depth=2, late_rules=0.5, depth=2),
    dict(fns=["max", "or"], nrules=5, nsets=2, rels=2, unary=2, ncmds=16, checks=0.1, sched_depth=1, late_rules=0.4, growth=False, subsume=0.2),
    # containers rebuilt in place (nested up to three levels) with rules matching through their contents
    dict(consts=2, unary=1, binary=0, fns=[], rels=1, nrules=3, nsets=1, conts=["vvv"], cont_rules=1.0, templ=1.0, ncmds=14,
         checks=0.1, depth=1, sched_depth=1, cont_n=[1, 1, 1, 2]),
    dict(consts=3, unary=1, binary=0, fns=["min"], rels=1, nrules=4, nsets=2, conts=["vec", "sv"], cont_rules=0.7, ncmds=14,
         checks=0.1, depth=1, sched_depth=1, cont_n=[1, 1, 2], late_rules=0.4),
]


def scenarios(tier):
    from . import sessgen, core
    return sessgen.container_scenarios(50 if tier == "quick" else 1500, core.seed() + 17)


def check(tier):
    return family.check_family(
        "C03", tier, "c03",
        [("P3", "MC_EggAbs.cfg", 3, 4), ("P2", "MC_EggAbs.cfg", 3, 4)],
        PROFILES, [(family.SEQ, None), (NAIVE, None)], (30, 400),
        ["monotone programs only (no delete); rules declared late and several rulesets exercise per-rule last-run timestamps",
         "naive evaluation is not the oracle: both modes are compared with EggAbs (whose RunOnce is the naive semantics)"],
        extra_sessions=scenarios)
