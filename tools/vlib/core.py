"""Shared machinery of the /verif driver: building the harness from /repo's
working tree, running TLC (model checking / trace validation), writing evidence,
known findings, verdict lines.  python3 stdlib only."""
import json, os, re, shutil, subprocess, sys, time

ROOT = os.path.dirname(os.path.dirname(os.path.dirname(os.path.abspath(__file__))))
SPEC = os.path.join(ROOT, "spec")
HARNESS = os.path.join(ROOT, "harness")
WORK = os.path.join(ROOT, "work")
EVID = os.path.join(ROOT, "evidence")
REPLAYS = os.path.join(ROOT, "replays")
TLA_CP = "/opt/veriftools/tla/tla2tools.jar:/opt/veriftools/tla/CommunityModules-deps.jar"
CONFORM = os.path.join(HARNESS, "target", "release", "conform")


class ToolError(Exception):
    """Harness/tool failure: the check is broken (exit 2), never a verdict."""


def seed():
    try:
        return int(os.environ.get("VERIF_SEED", "1"))
    except ValueError:
        return 1


def workdir(name):
    d = os.path.join(WORK, name)
    shutil.rmtree(d, ignore_errors=True)
    os.makedirs(d, exist_ok=True)
    return d


def build_harness(quiet=True):
    """Rebuild the conformance harness against /repo's current working tree
    (path dependencies), hooks enabled through harness/.cargo/config.toml."""
    env = dict(os.environ)
    env["CARGO_NET_OFFLINE"] = "true"
    t0 = time.time()
    p = subprocess.run(["cargo", "build", "--offline", "--release", "--bins"], cwd=HARNESS, env=env,
                       stdout=subprocess.PIPE, stderr=subprocess.STDOUT, text=True)
    if p.returncode != 0:
        sys.stdout.write(p.stdout[-6000:])
        raise ToolError("harness build failed (the tree under /repo does not compile with the harness)")
    return time.time() - t0


def conform(args, stdin=None, timeout=600, env=None, check=True):
    e = dict(os.environ)
    e.setdefault("RUST_BACKTRACE", "0")
    if env:
        e.update(env)
    try:
        p = subprocess.run([CONFORM] + args, input=stdin, stdout=subprocess.PIPE, stderr=subprocess.PIPE,
                           text=True, timeout=timeout, env=e)
    except subprocess.TimeoutExpired:
        raise ToolError("harness timed out: conform %s" % " ".join(args))
    if check and p.returncode != 0:
        sys.stdout.write(p.stderr[-4000:])
        raise ToolError("harness failed (%d): conform %s" % (p.returncode, " ".join(args)))
    return p


RE_STATES = re.compile(r"(\d+) states generated, (\d+) distinct states found, (\d+) states left on queue")
RE_DEPTH = re.compile(r"The depth of the complete state graph search is (\d+)")
RE_COV = re.compile(r"^<(\w+) line \d+, col \d+ to line \d+, col \d+ of module (\w+)(?: \([\d ]+\))?>: (\d+):(\d+)", re.M)


class TlcResult:
    def __init__(self, out, rc, wall):
        self.out, self.rc, self.wall = out, rc, wall
        m = RE_STATES.findall(out)
        self.generated, self.distinct, self.left = (int(x) for x in m[-1]) if m else (0, 0, 0)
        d = RE_DEPTH.findall(out)
        self.depth = int(d[-1]) if d else 0
        self.invariant = None
        mi = re.search(r"Error: Invariant (\w+) is violated", out)
        if mi:
            self.invariant = mi.group(1)
        ma = re.search(r"Error: Action property (\w+) is violated", out)
        if ma:
            self.invariant = ma.group(1)
        mt = re.search(r"Error: Temporal properties were violated", out)
        if mt:
            self.invariant = self.invariant or "TemporalProperty"
        if "Error: Deadlock reached" in out:
            self.invariant = self.invariant or "Deadlock"
        self.finished = "Model checking completed" in out or "Finished in" in out
        self.noerror = "No error has been found" in out
        # per-action coverage: name -> (distinct, taken)
        self.actions = {}
        for m in RE_COV.finditer(out):
            name = m.group(1)
            d_, t_ = int(m.group(3)), int(m.group(4))
            a = self.actions.setdefault(name, [0, 0])
            a[0] += d_
            a[1] += t_
        self.printed = []
        for line in out.splitlines():
            if line.startswith('<<"') :
                self.printed.append(line)

    def error_text(self):
        i = self.out.find("Error:")
        return self.out[i:i + 3000] if i >= 0 else self.out[-3000:]


def run_tlc(module, cfg=None, workers=8, timeout=1800, env=None, extra=None, xmx="8g", dfs=False,
            cwd=SPEC, metadir=None, coverage=True, simulate=None, depth=None):
    """Run TLC on spec/<module>.tla with spec/<cfg>.  Returns TlcResult."""
    cfg = cfg or (module + ".cfg")
    metadir = metadir or workdir("tlc_" + os.path.splitext(os.path.basename(cfg))[0])
    java = ["java", "-XX:+UseParallelGC", "-Xmx" + xmx, "-Xss512m"]
    if dfs:
        java.append("-Dtlc2.tool.queue.IStateQueue=StateDeque")
    cmd = ["timeout", str(timeout)] + java + ["-cp", TLA_CP, "tlc2.TLC", "-workers", str(workers),
           "-metadir", metadir, "-cleanup", "-noGenerateSpecTE", "-config", cfg]
    if coverage:
        cmd += ["-coverage", "1"]
    if simulate:
        cmd += ["-simulate", "num=%d" % simulate]
        if depth:
            cmd += ["-depth", str(depth)]
        cmd += ["-seed", str(seed())]
    if extra:
        cmd += extra
    cmd.append(module + ".tla")
    e = dict(os.environ)
    if env:
        e.update(env)
    t0 = time.time()
    p = subprocess.run(cmd, cwd=cwd, env=e, stdout=subprocess.PIPE, stderr=subprocess.STDOUT, text=True)
    wall = time.time() - t0
    shutil.rmtree(metadir, ignore_errors=True)
    res = TlcResult(p.stdout, p.returncode, wall)
    if p.returncode == 124:
        raise ToolError("TLC timed out after %ds on %s/%s" % (timeout, module, cfg))
    if "Parsing or semantic analysis failed" in p.stdout or "***Parse Error***" in p.stdout \
       or "Error: TLC threw an unexpected exception" in p.stdout and res.invariant is None and "postcondition" not in p.stdout.lower():
        sys.stdout.write(p.stdout[-5000:])
        raise ToolError("TLC failed on %s/%s" % (module, cfg))
    return res


def require_clean_model(res, module, must_take=None):
    """A model run is a pass only if it finished without error and every named
    action was taken (vacuity guard)."""
    if res.invariant is None and not res.noerror:
        sys.stdout.write(res.out[-5000:])
        raise ToolError("TLC did not finish cleanly on %s" % module)
    if res.invariant is None and must_take:
        missing = [a for a in must_take if res.actions.get(a, [0, 0])[1] == 0]
        if missing:
            raise ToolError("vacuity: actions never taken in %s: %s" % (module, ", ".join(missing)))


def validate_trace(module, trace_path, cfg=None, timeout=1800, xmx="4g", env=None):
    """Trace validation: the trace module consumes one ndjson line per step.
    Returns dict(accepted, consumed, total, invariant, res)."""
    with open(trace_path) as f:
        total = sum(1 for line in f if line.strip())
    e = {"TRACE": os.path.abspath(trace_path)}
    if env:
        e.update(env)
    res = run_tlc(module, cfg=cfg, workers=1, timeout=timeout, env=e, xmx=xmx, dfs=True, coverage=False,
                  metadir=workdir("trace_" + os.path.basename(trace_path)))
    consumed = max(res.depth - 1, 0)
    if res.invariant is not None:
        # the error trace ends at the violating state; its l tells where
        ls = re.findall(r"^/?\\?\s*l = (\d+)", res.out, re.M)
        if ls:
            consumed = int(ls[-1]) - 1
        return dict(accepted=False, consumed=consumed, total=total, invariant=res.invariant, res=res)
    if res.depth == 0:
        sys.stdout.write(res.out[-5000:])
        raise ToolError("trace validation of %s produced no search depth" % trace_path)
    return dict(accepted=(consumed == total), consumed=consumed, total=total, invariant=None, res=res)


def read_ndjson(path):
    out = []
    with open(path) as f:
        for line in f:
            line = line.strip()
            if line:
                out.append(json.loads(line))
    return out


def write_ndjson(path, events):
    with open(path, "w") as f:
        for e in events:
            f.write(json.dumps(e, separators=(",", ":")) + "\n")


# ---------------------------------------------------------------- findings

def known_findings():
    p = os.path.join(ROOT, "known_findings.json")
    if not os.path.exists(p):
        return []
    with open(p) as f:
        return json.load(f).get("findings", [])


class Verdict:
    """Collects violations of one check run, applies known_findings.json
    (an entry matches on property + its 'match' key), prints the contractual
    lines and decides the exit status."""

    def __init__(self, pid):
        self.pid = pid
        self.violations = []   # (key, description, replay_path)
        self.known_hit = []

    def violation(self, key, desc, replay_obj):
        os.makedirs(REPLAYS, exist_ok=True)
        safe = re.sub(r"[^A-Za-z0-9_.-]+", "_", key)[:80]
        path = os.path.join(REPLAYS, "%s_%s.json" % (self.pid, safe))
        with open(path, "w") as f:
            json.dump(dict(property=self.pid, key=key, what=desc, replay=replay_obj), f, indent=1, default=str)
        for k in known_findings():
            if k.get("status", "open") != "open":
                continue
            if k["property"] == self.pid and re.search(k["match"], key):
                if not any(x[0]["id"] == k["id"] for x in self.known_hit):
                    self.known_hit.append((k, desc))
                return
        self.violations.append((key, desc, path))

    def finish(self):
        for k, desc in self.known_hit:
            print("KNOWN-FINDING: property=%s %s [%s]" % (self.pid, k["what"], k["id"]))
        seen = set()
        for key, desc, path in self.violations:
            if key in seen:
                continue
            seen.add(key)
            print("VIOLATION property=%s replay=%s" % (self.pid, path))
            print("  " + desc[:600])
        return 1 if self.violations else 0


def write_evidence(pid, tier, level, coverage, wall, violations, assumptions):
    os.makedirs(EVID, exist_ok=True)
    if os.environ.get("VERIF_DEV_SKIP_MODELS"):
        return None                      # development runs never overwrite evidence
    ev = dict(property_id=pid, tier=tier, seed=seed(), level=level, coverage=coverage,
              assumptions=assumptions, wall_s=round(wall, 2), violations=violations)
    with open(os.path.join(EVID, pid + ".json"), "w") as f:
        json.dump(ev, f, indent=1, default=str)
    return ev
