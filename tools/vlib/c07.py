"""C07 -- extraction returns a member of the class, at the minimum cost."""
import json, os, random, time
from . import core, family, sess, sessgen
from .sessgen import Prog

CAP = 100000000
IMAX = 9223372036854775807


SIG = [("K1", [], 1), ("K0", [], 0), ("U", ["E"], 1), ("Z", ["E"], 0), ("B", ["E", "E"], 1), ("S", ["E"], CAP), ("P", ["E", "E"], CAP)]
NSIG = len(SIG)


def graph_prog(ncls, order):
    """order: permutation of 0..5 = declaration order of the constructors (the engine scans tables in that order)"""
    p = Prog()
    for k in order:
        name, ins, cost = SIG[k]
        p.add(name, "con", ins, "E", cost=cost, rcost=IMAX if cost == CAP else cost)
    for i in range(ncls):
        p.add("C%d" % (i + 1), "con", [], "E", unext=True)
    p.rsets.append(dict(name="rs0", kind="rules", subs=[]))
    return p


def graph_session(g, sid, ncls, rng):
    """session that builds the e-graph g and extracts every class; the constructors are declared in the
    order in which they first occur in g (so the engine's scan order follows the model's sequence as far as
    tables allow), the remaining ones in random order"""
    order = []
    for r in g:
        if r["f"] - 1 not in order:
            order.append(r["f"] - 1)
    rest = [k for k in range(NSIG) if k not in order]
    rng.shuffle(rest)
    order += rest
    p = graph_prog(ncls, order)
    F = lambda f: order.index(f - 1) + 1
    C = lambda v: {"f": NSIG + v[1], "a": []}
    cmds = []
    for r in g:
        cmds.append(dict(k="union", a={"f": F(r["f"]), "a": [C(x) for x in r["a"]]}, b=C(r["o"])))
    for r in g:
        if r["s"]:
            cmds.append(dict(k="subsume", f=F(r["f"]), a=[C(x) for x in r["a"]]))
    for i in range(ncls):
        cmds.append(dict(k="extract", t={"f": NSIG + 1 + i, "a": []}, n=0))
        cmds.append(dict(k="extract", t={"f": NSIG + 1 + i, "a": []}, n=3))
    steps = [dict(c=c, text=sessgen.cmd_text(p, c)) for c in cmds]
    return dict(id=sid, mode=dict(threads=1, seminaive=True, enc="plain"), prog=p.struct(), active=[],
                setup=sessgen.decl_text(p), steps=steps, tables=[fn["name"] for fn in p.funcs])


def random_graph(r, ncls, nrows, sat):
    keys = []
    nf = 7 if sat else 5
    ar = [0, 0, 1, 1, 2, 1, 2]
    g = []
    while len(g) < nrows:
        f = r.randrange(1, nf + 1)
        a = [[-2, r.randrange(1, ncls + 1)] for _ in range(ar[f - 1])]
        if (f, a) in keys:
            continue
        keys.append((f, a))
        g.append(dict(f=f, a=a, o=[-2, r.randrange(1, ncls + 1)], s=(r.random() < 0.1)))
    return g


PROFILES = [
    dict(fns=[], nrules=3, nsets=1, rels=1, unary=2, binary=1, ncmds=14, checks=0.1, sched_depth=1, depth=2,
         costs=[0, 1, 1, 2, 5], extract=0.5, subsume=0.4),
]


def check(tier):
    t0 = time.time()
    V = core.Verdict("C07")
    quick = tier == "quick"
    wd = core.workdir("c07")
    # ---- model level: the algorithm against the reference on all small e-graphs
    cfgs = [("MC_Extract.cfg", 2, 3, False, True)] if quick else [("MC_Extract.cfg", 3, 4, False, True)]
    cfgs.append(("MC_Extract_Sat.cfg", 3, 4, True, False))
    states = 0
    graphs = []
    satgraphs = []
    detail = {"models": []}
    for base, ncls, mrows, sat, emit in cfgs:
        cfg = os.path.join(wd, "MC_Extract_%d_%d_%s.cfg" % (ncls, mrows, sat))
        txt = open(os.path.join(core.SPEC, base)).read()
        import re as _re
        txt = _re.sub(r"NClasses = \d+", "NClasses = %d" % ncls, txt)
        txt = _re.sub(r"MaxRows = \d+", "MaxRows = %d" % mrows, txt)
        txt = txt.replace("EmitReplay = TRUE", "EmitReplay = %s" % ("TRUE" if emit else "FALSE"))
        open(cfg, "w").write(txt)
        res = core.run_tlc("MC_Extract", cfg=cfg, workers=12, coverage=False, timeout=3000)
        if res.invariant:
            V.violation("model:Extract:%s:%s" % (res.invariant, "saturating" if sat else "plain"),
                        "the extraction algorithm (Extract!BF) violates %s on a small e-graph%s\n%s" % (
                            res.invariant, " with saturating costs" if sat else "", res.error_text()[res.error_text().find("/\\ g ="):][:700]),
                        dict(kind="model", module="MC_Extract", cfg=base, invariant=res.invariant))
        elif not res.noerror:
            raise core.ToolError("TLC did not finish on MC_Extract: " + res.error_text()[:600])
        nopar = []
        for line in res.printed:
            if line.startswith('<<"NOPARENT"'):
                js = line[line.index(',') + 1:].strip()
                nopar.append(json.loads(json.loads(js[:js.rindex('>>')].strip())))
        if nopar:
            V.violation("model:Extract:HasCostHasParent:saturating",
                        "the extraction algorithm (Extract!BF) leaves a class with a cost but without a parent edge on %d of the e-graphs "
                        "with saturating costs, e.g. %s" % (len(nopar), json.dumps(nopar[0])),
                        dict(kind="model", module="MC_Extract", cfg=base, invariant="HasCostHasParent", egraphs=nopar[:20]))
            satgraphs += [(ncls, g) for g in nopar]
        states += res.distinct
        detail["models"].append(dict(cfg=base, classes=ncls, max_rows=mrows, saturating=sat, egraphs=res.distinct, result=res.invariant or "ok"))
        if emit:
            for line in res.printed:
                if line.startswith('<<"REPLAY"'):
                    js = line[line.index(',') + 1:].strip()
                    graphs.append((ncls, json.loads(json.loads(js[:js.rindex('>>')].strip()))))
    if not graphs:
        raise core.ToolError("no REPLAY lines from MC_Extract")
    r = random.Random(core.seed())
    r.shuffle(graphs)
    nrep = 90 if quick else 4000
    sessions = [graph_session(g, "c07-g%d" % k, ncls, r) for k, (ncls, g) in enumerate(graphs[:nrep])]
    r.shuffle(satgraphs)
    sessions += [graph_session(g, "c07-noparent%d" % k, ncls, r) for k, (ncls, g) in enumerate(satgraphs[:16 if quick else 400])]
    # larger random e-graphs (more classes / rows than the exhaustive bound), some with saturating costs
    for k in range(24 if quick else 1500):
        ncls = r.choice([3, 4, 5])
        sat = r.random() < 0.25
        sessions.append(graph_session(random_graph(r, ncls, r.randrange(3, 9), sat), "c07-%s%d" % ("sat" if sat else "rnd", k), ncls, r))
    g = sessgen.Gen(core.seed() * 1000 + 7, PROFILES[0])
    for k in range(16 if quick else 600):
        sessions.append(g.session("c07-r%d" % k))
    print("c07: models done at %.0fs, %d sessions" % (time.time() - t0, len(sessions)), flush=True)
    results = sess.run_family("C07_c07", sessions, [(family.SEQ, None)], chunks=14)
    nb = sess.report(V, "c07", results)
    events = results[0][1]
    nex = sum(1 for e in events if e["e"] == "cmd" and e["c"]["k"] == "extract")
    nok = sum(1 for e in events if e["e"] == "cmd" and e["c"]["k"] == "extract" and e["res"] == "ok")
    dn = len({json.dumps([e["tabs"], e["c"]], sort_keys=True) for e in events if e["e"] == "cmd" and e["c"]["k"] == "extract"})
    samp = [dict(text=e["text"], res=e["res"], outs=[{k: v for k, v in o.items() if k in ("k", "cost", "text", "texts")} for o in e["outs"]])
            for e in events if e["e"] == "cmd" and e["c"]["k"] == "extract" and e["res"] == "ok"][:4]
    detail.update(sessions=len(sessions), events=len(events), extract_commands=nex, extract_ok=nok, bad_lines=nb,
                  replayed_model_egraphs=min(nrep, len(graphs)), model_egraphs_with_two_rows_per_class=len(graphs))
    coverage = dict(states=max(states, 1), transitions=max(states, 1), traces_validated_against_impl=len(sessions),
                    samples=samp or [dict(note="no successful extraction")], evaluations=nex, distinct_nontrivial=dn,
                    rule="every e-graph of the exhaustive bound is one TLC state (the algorithm model is evaluated on it as an invariant); "
                         "sampled model e-graphs, larger random e-graphs and random sessions are built on the real engine and every class extracted "
                         "(best and 3 variants); distinct_nontrivial = distinct (logged database, extract command) pairs",
                    exhaustive=False, detail=detail)
    rc = V.finish()
    core.write_evidence("C07", tier, "model_checking", coverage, time.time() - t0, len(V.violations),
                        ["costs are compared exactly on a scaled copy of u64 arithmetic (Huge = 10^8 for i64::MAX, Cap = 2 Huge + 1 for u64::MAX); small parts above 10^8 are not generated",
                         "containers of e-classes are not extracted here",
                         "the algorithm model is a transcription of bellman_ford / save_best_parent_edge; it is bound to the code only through the results of real extractions"])
    return rc
