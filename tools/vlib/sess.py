"""Running sessions on the real engine and validating the recorded traces with
EggAbs_Trace (shared by the session-level properties)."""
import json, os, re, subprocess, time
from concurrent.futures import ThreadPoolExecutor
from . import core

# TLC pretty-prints a long tuple over several lines: the patterns tolerate white space between the elements
RE_BAD = re.compile(r'<<\s*"BAD",\s*(\d+),\s*"([^"]+)"\s*>>')
RE_NOTE = re.compile(r'<<\s*"NOTE",\s*(\d+),\s*"([^"]+)"\s*>>')
NOTES = {}        # trace path -> [(index0, note)]
RE_DIFF = re.compile(r'^<<"DIFF", (\d+), (.*)>>$', re.M)


def run_sessions(sessions, name, env=None, timeout=900):
    """Executes sessions with the harness; returns the trace path."""
    wd = os.path.join(core.WORK, name)
    os.makedirs(wd, exist_ok=True)
    inp = os.path.join(wd, "sessions.ndjson")
    with open(inp, "w") as f:
        for s in sessions:
            f.write(json.dumps(s, separators=(",", ":")) + "\n")
    out = os.path.join(wd, "trace.ndjson")
    p = core.conform(["session", "--in", inp, "--out", out], env=env, timeout=timeout)
    try:
        info = json.loads(p.stdout.strip().splitlines()[-1])
        for k in ("plans_single", "plans_decomposed", "truncated"):
            STATS[k] = STATS.get(k, 0) + info.get(k, 0)
    except Exception:
        pass
    return out


STATS = {}      # totals reported by the harness over all runs of this check


def validate(trace, module="EggAbs_Trace", timeout=1500, cfg=None):
    """TLC trace validation; returns (events, bads) where bads = [(index0, code)]"""
    events = core.read_ndjson(trace)
    res = core.run_tlc(module, cfg=cfg, workers=1, timeout=timeout, env={"TRACE": os.path.abspath(trace)}, xmx="6g", dfs=True,
                       coverage=False, metadir=core.workdir("trace_" + re.sub(r"\W+", "_", trace)[-60:]))
    consumed = max(res.depth - 1, 0)
    if res.invariant is not None or not res.noerror or consumed != len(events):
        tail = res.error_text()
        raise core.ToolError("trace module %s did not consume the trace %s (%d of %d events): %s"
                             % (module, trace, consumed, len(events), tail[:1500]))
    bads = [(int(m.group(1)) - 1, m.group(2)) for m in RE_BAD.finditer(res.out)]
    NOTES[os.path.abspath(trace)] = [(int(m.group(1)) - 1, m.group(2)) for m in RE_NOTE.finditer(res.out)]
    diffs = {int(m.group(1)) - 1: m.group(2) for m in RE_DIFF.finditer(res.out)}
    return events, bads, diffs, res


def split_validate(trace, name, chunks=8, module="EggAbs_Trace", timeout=1500):
    """Splits a trace at session boundaries into `chunks` files and validates them
    in parallel TLC processes.  Returns (events, bads, diffs) with global indices."""
    events = core.read_ndjson(trace)
    starts = [i for i, e in enumerate(events) if e["e"] == "decl"]
    if not starts:
        raise core.ToolError("empty trace " + trace)
    chunks = max(1, min(chunks, len(starts)))
    per = (len(starts) + chunks - 1) // chunks
    parts = []
    for k in range(0, len(starts), per):
        lo = starts[k]
        hi = starts[k + per] if k + per < len(starts) else len(events)
        path = "%s.part%d" % (trace, len(parts))
        core.write_ndjson(path, events[lo:hi])
        parts.append((lo, path))
    def work(part):
        lo, path = part
        ev, bads, diffs, res = validate(path, module=module, timeout=timeout)
        for i, n in NOTES.get(os.path.abspath(path), []):
            for k in range(lo + i, lo + len(ev)):
                if k > lo + i and events[k]["e"] == "decl":
                    break
                events[k].setdefault("_notes", set()).add(n)
        return [(lo + i, c) for i, c in bads], {lo + i: d for i, d in diffs.items()}
    bads, diffs = [], {}
    with ThreadPoolExecutor(max_workers=chunks) as ex:
        for b, d in ex.map(work, parts):
            bads += b
            diffs.update(d)
    return events, sorted(bads), diffs


def session_of(events, idx):
    """(decl event index, decl event, list of cmd events up to idx) for global event index idx"""
    start = max(i for i in range(idx + 1) if events[i]["e"] == "decl")
    return start, events[start], events[start + 1: idx + 1]


def slim(ev):
    return {k: v for k, v in ev.items() if k not in ("tabs", "canon", "prog")}


def distinct_nontrivial(events):
    """number of distinct logged database states with >= 2 non-empty tables or a non-trivial class (measured)"""
    seen = set()
    for e in events:
        if e["e"] != "cmd":
            continue
        nonempty = sum(1 for t in e["tabs"] if t)
        if nonempty >= 2:
            seen.add(json.dumps(e["tabs"], sort_keys=True))
    return len(seen)


# ---------------------------------------------------------------- families
def mode_tag(mode, env):
    t = "t%d" % mode.get("threads", 1)
    if not mode.get("seminaive", True):
        t += "-naive"
    if mode.get("enc", "plain") != "plain":
        t += "-" + mode["enc"]
    if mode.get("nodecomp"):
        t += "-nodecomp"
    if env:
        t += "-par0"
    return t


PAR0 = {"EGGLOG_PARALLEL_TABLE_OP_CUTOFF": "0", "EGGLOG_PARALLEL_DB_LEVEL_OP_CUTOFF": "0",
        "EGGLOG_PARALLEL_INDEX_CONSTRUCTION_CUTOFF": "0", "EGGLOG_PARALLEL_REBUILD_CUTOFF": "0",
        "EGGLOG_PARALLEL_INTRA_CONTAINER_CUTOFF": "0", "EGGLOG_PARALLEL_INTER_CONTAINER_CUTOFF": "0",
        "EGGLOG_PARALLEL_ACTION_BATCH_SIZE": "2"}


def run_family(name, sessions, configs, chunks=8, module="EggAbs_Trace", timeout=1500):
    """Runs every session under every configuration (mode dict, env dict or None):
    one harness process per environment (the parallel cut-offs are read once per
    process), all traces validated by the same trace module.
    Returns list of (tag, events, bads, diffs)."""
    out = []
    for ci, (mode, env) in enumerate(configs):
        tag = mode_tag(mode, env)
        ss = []
        for s in sessions:
            s2 = dict(s)
            s2["mode"] = mode
            if mode.get("enc", "plain") != "plain":
                s2["cmp"] = 0          # the engine's tables are the encoding's: outcomes, sizes and costs are compared, not rows
            s2["id"] = "%s@%s" % (s["id"], tag)
            ss.append(s2)
        tr = run_sessions(ss, "%s_%d" % (name, ci), env=env)
        events, bads, diffs = split_validate(tr, name, chunks=chunks, module=module, timeout=timeout)
        out.append((tag, events, bads, diffs))
        for s2 in ss:
            SESSIONS[s2["id"]] = (s2, env)
    return out


SESSIONS = {}     # session id -> (session, env): for replay artefacts


def report(V, fam, results, sessions_by_id=None, maxreports=40):
    """Turns BAD lines into violations.  The key names the failing history shape:
    family : code : command kind : configuration [: afterfail]"""
    n = 0
    for tag, events, bads, diffs in results:
        for idx, code in bads:
            start, decl, cmds = session_of(events, idx)
            ev = events[idx]
            kind = ev.get("c", {}).get("k", ev["e"])
            head = lambda t: re.sub(r"[^a-z-]", "", t.strip("( ").split(" ")[0].lower())[:20]
            if kind in ("bad", "probe"):
                kind += "(%s)" % head(ev.get("text", ""))
                if kind.startswith("probe"):
                    prev = [e for e in cmds[:-1] if e.get("c", {}).get("k") == "bad"]
                    if prev:
                        kind += "<-bad(%s)" % head(prev[-1].get("text", ""))
            if code == "panicked":
                code += "(%s)" % re.sub(r"[^A-Za-z ]", "", ev.get("msg", ""))[:40].strip()
            if kind == "extract" and any(fn.get("cost", 1) >= 100000000 for fn in decl["prog"]["funcs"]):
                kind += "+hugecosts"
            if ev["e"] == "abort":
                code += "(%s)" % re.sub(r"[^A-Za-z ]", "", re.sub(r"`[^`]*`", "", ev.get("why", "")))[:40].strip()
                kind = "after-clone" if any(e["e"] == "clone" for e in cmds) else "single-egraph"
            afterfail = any(e.get("res") in ("err", "panic") and e.get("c", {}).get("k") not in ("check", "bad") for e in cmds[:-1])
            key = "%s:%s:%s:%s%s" % (fam, code, kind, tag, ":afterfail" if afterfail else "")
            if "subsume-created-the-row" in ev.get("_notes", ()) and decl.get("mode", {}).get("enc", "plain") != "plain":
                key += ":after-subsume-of-absent-row"
            n += 1
            if n > maxreports:
                continue
            desc = "%s in session %s at command %d `%s` (res=%s %s); diff=%s" % (
                code, decl["id"], len(cmds), ev.get("text", ""), ev.get("res"), ev.get("msg", "")[:120], str(diffs.get(idx, ""))[:600])
            full, env = SESSIONS.get(decl["id"], (None, None))
            V.violation(key, desc, dict(kind="session", family=fam, config=tag, mode=decl.get("mode"), env=env,
                                        session=full, session_id=decl["id"],
                                        commands=[dict(text=e.get("text"), res=e.get("res"), msg=e.get("msg", "")[:200]) for e in cmds],
                                        first_bad=dict(index=len(cmds), code=code, event=slim(ev)), diff=diffs.get(idx)))
    return n
