"""C04 -- the database is canonical and consistent after every command (also after failures)."""
from . import family, sess

PROFILES = [
    dict(fns=["min", "none"], nrules=4, nsets=2, rels=2, intcon=1, ncmds=14, checks=0.1, sched_depth=1, depth=2, panic=0.35),
    dict(fns=["union", "none"], nrules=4, nsets=1, rels=1, unary=2, ncmds=14, checks=0.1, sched_depth=2, growth=False, panic=0.25, subsume=0.2, pushpop=0.3),
]
CONFIGS = [(family.SEQ, None), (dict(threads=4, seminaive=True, enc="plain"), sess.PAR0)]


def scale_sessions(tier):
    from . import scale, core
    return scale.sessions(tier, core.seed() + 5)


CONT_PROFILES = [dict(fns=["min"], nrules=4, nsets=1, rels=1, conts=["vec", "set", "vv"], ncmds=14, checks=0.2, sched_depth=1, depth=1,
                      cont_n=[1, 2], panic=0.2)]


def check(tier):
    return family.check_groups(
        "C04", tier,
        [dict(fam="c04", model_specs=[("P3", "MC_EggAbs.cfg", 3, 3)], profiles=PROFILES + CONT_PROFILES, configs=CONFIGS, nrand=(40, 500)),
         dict(fam="c04scale", model_specs=[], profiles=[], nrand=(0, 0), extra=scale_sessions, configs=CONFIGS)],
        ["after a command that fails at run time the specification does not predict which of that iteration's writes landed; "
         "it requires the logged state to be canonical, functional and congruence-closed, and later commands to behave consistently with it",
         "large databases (10^4 rows, >1000 containers; family c04scale) are checked for the raw invariants only"])
