"""C04 -- the database is canonical and consistent after every command (also after failures)."""
from . import family, sess

PROFILES = [
    dict(fns=["min", "none"], nrules=4, nsets=2, rels=2, intcon=1, ncmds=14, checks=0.1, sched_depth=1, depth=2, panic=0.35),
    dict(fns=["union", "none"], nrules=4, nsets=1, rels=1, unary=2, ncmds=14, checks=0.1, sched_depth=2, growth=False, panic=0.25, subsume=0.2, pushpop=0.3),
]
CONFIGS = [(family.SEQ, None), (dict(threads=4, seminaive=True, enc="plain"), sess.PAR0)]


def check(tier):
    return family.check_family(
        "C04", tier, "c04", [("P3", "MC_EggAbs.cfg", 3, 3)], PROFILES, CONFIGS, (50, 600),
        ["after a command that fails at run time the specification does not predict which of that iteration's writes landed; "
         "it requires the logged state to be canonical, functional and congruence-closed, and later commands to behave consistently with it"])
