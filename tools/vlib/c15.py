"""C15 -- printing and re-parsing a program is the identity.

Syntax.tla specifies the printer (tree -> tokens).  Test trees are drawn from the grammar by a seeded generator
(every command kind, systematic option combinations, the literal pool); TLC (MC_Syntax) pushes every tree through
the specified printer, checks that the printer is injective on the set and emits the token sequences; the harness
feeds the specified text to the real parser, prints with the real printer, re-parses and prints again; TLC
(Syntax_Trace) compares the real printer's tokens with the specification's for every tree."""
import json, os, random, struct, time
from . import core, sess

FLOATS = ["1.5", "-0.0", "NaN", "inf", "-inf", "1e300", "5e-324", "1e19", "0.1", "2.0", "-123456789.25", "1.7976931348623157e308"]


def fbits(src):
    return "%016x" % struct.unpack(">Q", struct.pack(">d", float(src.replace("NaN", "nan"))))[0]


FSRC = {fbits(s): s for s in FLOATS}
INTS = ["0", "-1", "42", "9223372036854775807", "-9223372036854775808"]
STRS = [["a"], ["a", "\"", "b"], ["\\"], ["l", "1", "\n", "l", "2"], ["\t", "x"], ["é", "中"], [], ["a", " ", "b", ")", "("], ["\\", "n"]]
NAMES = ["f", "g", "Foo", "my-fn", "x1", "Add", "+", "<="]
VARS = ["x", "y", "z", "e1"]
SORTS = ["i64", "E", "f64", "String", "bool"]
RSETS = ["", "rs", "my-rules"]


class G:
    def __init__(self, seed):
        self.r = random.Random(seed)

    def lit(self, kinds=("int", "bool", "unit", "str", "float")):
        r = self.r
        t = r.choice(kinds)
        if t == "int":
            return dict(t="int", v=r.choice(INTS))
        if t == "bool":
            return dict(t="bool", v=r.choice(["true", "false"]))
        if t == "unit":
            return dict(t="unit", v="")
        if t == "str":
            return dict(t="str", v=r.choice(STRS))
        return dict(t="float", v=fbits(r.choice(FLOATS)))

    def expr(self, d=2):
        r = self.r
        x = r.random()
        if d == 0 or x < 0.25:
            return dict(k="var", n=r.choice(VARS)) if r.random() < 0.5 else dict(k="lit", l=self.lit())
        return dict(k="call", f=r.choice(NAMES), a=[self.expr(d - 1) for _ in range(r.randrange(0, 3))])

    def call(self, d=2):
        return dict(k="call", f=self.r.choice(NAMES), a=[self.expr(d - 1) for _ in range(self.r.randrange(0, 3))])

    def fact(self):
        if self.r.random() < 0.5:
            return dict(k="eq", l=self.expr(), r=self.expr())
        return dict(k="fact", e=self.call())

    def facts(self, lo=1, hi=3):
        return [self.fact() for _ in range(self.r.randrange(lo, hi + 1))]

    def action(self):
        r = self.r
        k = r.choice(["let", "set", "union", "delete", "subsume", "panic", "expr"])
        if k == "let":
            return dict(k="let", n=r.choice(VARS), e=self.expr())
        if k in ("set", "union"):
            return dict(k=k, l=self.call() if k == "set" else self.expr(), r=self.expr())
        if k in ("delete", "subsume"):
            return dict(k=k, e=self.call())
        if k == "panic":
            return dict(k="panic", m=r.choice(STRS))
        return dict(k="expr", e=self.call())

    def sched(self, d=2):
        r = self.r
        x = r.random()
        if d == 0 or x < 0.4:
            return dict(k="run", rs=r.choice(RSETS), until=self.facts(0, 2) if r.random() < 0.5 else [])
        k = r.choice(["repeat", "saturate", "seq"])
        s = dict(k=k, b=[self.sched(d - 1) for _ in range(r.randrange(1, 3))])
        if k == "repeat":
            s["n"] = r.choice(["1", "3", "100"])
        return s

    def command(self, kind=None, nofail=False):
        r = self.r
        kinds = ["constructor", "function", "relation", "ruleset", "combined", "rule", "rewrite", "birewrite", "run", "check", "extract",
                 "push", "pop", "printfn", "printsize", "action", "fail"]
        k = kind or r.choice(kinds)
        if k == "fail" and nofail:
            k = "check"
        name = r.choice(NAMES)
        ins = [r.choice(SORTS) for _ in range(r.randrange(0, 3))]
        if k == "constructor":
            return dict(k=k, name=name, ins=ins, out="E", cost=r.choice(["", "", "0", "7", "9223372036854775807"]), unext=r.random() < 0.4)
        if k == "function":
            m = r.choice([dict(k="none"), dict(k="var", n="old"), dict(k="var", n="new"), dict(k="call", f="min", a=[dict(k="var", n="old"), dict(k="var", n="new")]), self.expr()])
            return dict(k=k, name=name, ins=ins, out=r.choice(SORTS), merge=m, unext=r.random() < 0.3)
        if k == "relation":
            return dict(k=k, name=name, ins=ins)
        if k == "ruleset":
            return dict(k=k, name=r.choice(RSETS[1:]))
        if k == "combined":
            return dict(k=k, name="comb", subs=[r.choice(RSETS[1:]) for _ in range(r.randrange(1, 3))])
        if k == "rule":
            return dict(k=k, body=self.facts(), head=[self.action() for _ in range(r.randrange(1, 3))], rs=r.choice(RSETS),
                        name=r.choice([["r", "1"], ["m", "y", " ", "r"], ["q", "\"", "q"], ["b", "\\", "s"]]),
                        mode=r.choice(["", "", "naive", "unsafe"]), nodecomp=r.random() < 0.3)
        if k in ("rewrite", "birewrite"):
            return dict(k=k, l=self.call(), r=self.expr(), subsume=(k == "rewrite" and r.random() < 0.4),
                        when=self.facts(0, 2) if r.random() < 0.5 else [], rs=r.choice(RSETS))
        if k == "run":
            return dict(k=k, s=self.sched())
        if k == "check":
            return dict(k=k, facts=self.facts())
        if k == "extract":
            return dict(k=k, e=self.expr(), n=r.choice([dict(k="lit", l=dict(t="int", v="0")), dict(k="lit", l=dict(t="int", v="3")), dict(k="var", n="x")]))
        if k in ("push", "pop"):
            return dict(k=k, n=r.choice(["1", "2", "10"]))
        if k == "printfn":
            return dict(k=k, name=name, n=r.choice(["", "5", "100"]), file=r.choice([[], ["o", ".", "c", "s", "v"], ["a", " ", "b"], ["q", "\"", "q"], ["d", "\\", "f"]]),
                        csv=r.random() < 0.5)
        if k == "printsize":
            return dict(k=k, names=[r.choice(NAMES) for _ in range(r.randrange(0, 2))])
        if k == "action":
            return dict(k=k, a=self.action())
        return dict(k="fail", c=self.command(nofail=True))


def cases(tier):
    g = G(core.seed() * 101 + 15)
    n = 60 if tier == "quick" else 1500
    out = []
    kinds = ["constructor", "function", "relation", "ruleset", "combined", "rule", "rewrite", "birewrite", "run", "check", "extract",
             "push", "pop", "printfn", "printsize", "action", "fail"]
    seen = set()
    # every literal of the pool at least once, in an expression position
    for l in [dict(t="int", v=x) for x in INTS] + [dict(t="float", v=fbits(x)) for x in FLOATS] + [dict(t="str", v=x) for x in STRS] + \
             [dict(t="bool", v="true"), dict(t="unit", v="")]:
        out.append(dict(k="check", facts=[dict(k="eq", l=dict(k="var", n="x"), r=dict(k="lit", l=l))]))
        out.append(dict(k="action", a=dict(k="expr", e=dict(k="call", f="f", a=[dict(k="lit", l=l)]))))
    # the option lattice of constructor / function / rule / rewrite / print-function
    for cost in ("", "3"):
        for un in (False, True):
            out.append(dict(k="constructor", name="Foo", ins=["i64", "E"], out="E", cost=cost, unext=un))
            out.append(dict(k="function", name="f", ins=["E"], out="i64", merge=dict(k="none") if cost else dict(k="var", n="old"), unext=un))
    for mode in ("", "naive", "unsafe"):
        for nd in (False, True):
            for rs in ("", "rs"):
                out.append(dict(k="rule", body=[dict(k="fact", e=dict(k="call", f="f", a=[dict(k="var", n="x")]))],
                                head=[dict(k="expr", e=dict(k="call", f="g", a=[dict(k="var", n="x")]))], rs=rs, name=["r"], mode=mode, nodecomp=nd))
    for sub in (False, True):
        for wh in ([], [dict(k="eq", l=dict(k="var", n="x"), r=dict(k="var", n="y"))]):
            for rs in ("", "rs"):
                out.append(dict(k="rewrite", l=dict(k="call", f="f", a=[dict(k="var", n="x")]), r=dict(k="var", n="x"), subsume=sub, when=wh, rs=rs))
    for nn in ("", "5"):
        for fl in ([], ["o", "u", "t"]):
            for csv in (False, True):
                out.append(dict(k="printfn", name="f", n=nn, file=fl, csv=csv))
    while len(out) < n + 80:
        out.append(g.command(kinds[len(out) % len(kinds)]))
    res = []
    for c in out:
        key = json.dumps(c, sort_keys=True)
        if key not in seen:
            seen.add(key)
            res.append(c)
    return res


def text_of(tokens):
    out = []
    for t in tokens:
        if t.startswith("<f:") and t.endswith(">"):
            out.append(FSRC[t[3:-1]])
        else:
            out.append(t)
    return " ".join(out)


def check(tier):
    t0 = time.time()
    V = core.Verdict("C15")
    wd = core.workdir("c15")
    cs = cases(tier)
    cpath = os.path.join(wd, "cases.ndjson")
    core.write_ndjson(cpath, [dict(id=i + 1, ast=c) for i, c in enumerate(cs)])
    res = core.run_tlc("MC_Syntax", cfg="MC_Syntax.cfg", workers=8, env={"CASES": cpath}, timeout=3000, coverage=False)
    if res.invariant:
        V.violation("model:Syntax:%s" % res.invariant, "the specified printer violates %s on the test trees\n%s" % (res.invariant, res.error_text()[:1500]),
                    dict(kind="model", module="MC_Syntax", invariant=res.invariant))
    elif not res.noerror:
        raise core.ToolError("TLC did not finish on MC_Syntax: %s" % res.error_text()[:800])
    toks = {}
    for line in res.printed:
        if line.startswith('<<"CASE"'):
            body = line[len('<<"CASE", '):]
            i = int(body[:body.index(",")])
            js = body[body.index(",") + 1:].strip()
            toks[i] = json.loads(json.loads(js[:js.rindex('>>')].strip()))
    if len(toks) != len(cs) and not res.invariant:
        raise core.ToolError("MC_Syntax emitted %d of %d cases" % (len(toks), len(cs)))
    inp = os.path.join(wd, "in.ndjson")
    core.write_ndjson(inp, [dict(id=i, ast=cs[i - 1], text=text_of(toks[i])) for i in sorted(toks)])
    trace = os.path.join(wd, "trace.ndjson")
    core.conform(["syntax", "--in", inp, "--out", trace], timeout=1200)
    events, bads, diffs, tres = sess.validate(trace, module="Syntax_Trace", timeout=3000)
    seen = set()
    for idx, code in bads:
        ev = events[idx]
        kind = ev["ast"]["k"]
        feature = classify(ev)
        key = "c15:%s:%s:%s" % (code, kind, feature)
        if key in seen:
            continue
        seen.add(key)
        V.violation(key, "%s: `%s` -> printed `%s` (%s)" % (code, ev["text"][:200], ev["printed"][:200], ev.get("msg", "")[:150]),
                    dict(kind="syntax", case=ev["ast"], text=ev["text"], printed=ev["printed"], code=code))
    kinds = {}
    for c in cs:
        kinds[c["k"]] = kinds.get(c["k"], 0) + 1
    coverage = dict(states=max(res.distinct, 1), transitions=max(res.generated, 1), traces_validated_against_impl=len(events),
                    samples=[dict(text=e["text"], printed=e["printed"]) for e in events[:4]], evaluations=len(events), exhaustive=False,
                    detail=dict(cases=len(cs), kinds=kinds, bad_lines=len(bads), literal_pool=dict(ints=INTS, floats=FLOATS, strings=len(STRS))),
                    rule="one TLC state per test tree (MC_Syntax); every tree is parsed, printed, re-parsed and re-printed by the real code")
    rc = V.finish()
    core.write_evidence("C15", tier, "model_checking", coverage, time.time() - t0, len(V.violations),
                        ["trees are drawn from a generator over a subset of the command grammar (constructor, function, relation, rulesets, rule, rewrite, "
                         "birewrite, run-schedule, check, extract, push, pop, print-function, print-size, actions, fail) with systematic option combinations; "
                         "datatype, sort, input/output/include, prove and internal annotations are not generated",
                         "the textual form of a float literal is not specified: float tokens are compared by value (IEEE bits)",
                         "extracted terms and resolve_program output re-run are covered by C07 (term evaluated in the e-graph) and C11 (fourth treatment), not here"])
    return rc


def classify(ev):
    """which unusual ingredient the tree has (part of the violation key, so that findings are specific)"""
    js = json.dumps(ev["ast"])
    feats = []
    if '"\\""' in js or "\\\"" in ev["text"]:
        feats.append("quote")
    if "\\\\" in js:
        feats.append("backslash")
    if "\\n" in js or "\\t" in js:
        feats.append("control-char")
    if ev["ast"].get("k") == "rule":
        feats.append("rule")
    if ev["ast"].get("k") == "printfn" and ev["ast"].get("file"):
        feats.append("file")
    if '"t": "float"' in js:
        feats.append("float")
    return "+".join(feats) or "plain"


def replay(d, path):
    r = d["replay"]
    wd = core.workdir("c15_replay")
    inp = os.path.join(wd, "in.ndjson")
    core.write_ndjson(inp, [dict(id=1, ast=r["case"], text=r["text"])])
    trace = os.path.join(wd, "t.ndjson")
    core.conform(["syntax", "--in", inp, "--out", trace])
    events, bads, diffs, res = sess.validate(trace, module="Syntax_Trace")
    print("text:    ", events[0]["text"])
    print("printed: ", events[0]["printed"])
    for i, c in bads:
        print("BAD:", c)
    if bads:
        print("VIOLATION property=C15 replay=%s" % path)
        return 1
    print("replay: accepted")
    return 0
