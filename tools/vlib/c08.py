"""C08 -- push/pop and clone give perfect snapshot isolation."""
from . import family

PROFILES = [
    dict(fns=["min", "none"], nrules=3, nsets=2, rels=1, ncmds=18, checks=0.3, sched_depth=1, depth=2,
         pushpop=0.9, late_rules=0.6, late_funcs=2, redecl=0.12, panic=0.1),
    dict(fns=["max"], nrules=3, nsets=1, rels=2, ncmds=18, checks=0.3, sched_depth=1, growth=False,
         pushpop=0.5, late_rules=0.5, late_funcs=2, redecl=0.1, clone=0.2, subsume=0.2),
]


def check(tier):
    return family.check_groups(
        "C08", tier,
        [dict(fam="c08", model_specs=[], profiles=PROFILES, configs=[(family.SEQ, None)], nrand=(60, 800))],
        ["isolation is checked through the deterministic specification: the continuation R after P;push;Q;pop must behave exactly as the "
         "specification predicts from the state saved at push (which is the state after P), so it equals the run P;R; for clones the idle "
         "e-graph is dumped after every command issued on the other one and must not have changed",
         "Q ranges over declarations of functions and rules, runs, failing commands, nested push/pop; extension state and custom schedulers are covered by C18"])
