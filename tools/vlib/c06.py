"""C06 -- results do not depend on the number of threads."""
from . import family, sess

PROFILES = [
    dict(fns=["min", "union", "or"], nrules=4, nsets=2, rels=2, intcon=1, ncmds=14, checks=0.3, sched_depth=2, depth=2, subsume=0.2),
    dict(fns=["max"], nrules=4, nsets=1, rels=2, unary=2, ncmds=14, checks=0.3, sched_depth=1, growth=False),
]
T = lambda n: dict(threads=n, seminaive=True, enc="plain")
MIXED = {"EGGLOG_PARALLEL_TABLE_OP_CUTOFF": "0", "EGGLOG_PARALLEL_REBUILD_CUTOFF": "0"}
CONFIGS = [(family.SEQ, None), (T(4), None), (T(2), sess.PAR0), (T(4), sess.PAR0), (T(8), MIXED)]


def scale_sessions(tier):
    from . import scale, core
    return scale.sessions(tier, core.seed() + 9)


def check(tier):
    return family.check_groups(
        "C06", tier,
        [dict(fam="c06", model_specs=[("P3", "MC_EggAbs.cfg", 3, 3), ("P4", "MC_EggAbs.cfg", 3, 3)], profiles=PROFILES, configs=CONFIGS, nrand=(20, 300)),
         dict(fam="c06scale", model_specs=[], profiles=[], nrand=(0, 0), extra=scale_sessions,
              configs=[(T(2), sess.PAR0), (T(4), sess.PAR0), (T(8), MIXED)])],
        ["OS schedules are sampled, not enumerated (the interleavings of the primitives are explored in the C17/C19 models)",
         "every configuration must be accepted by the same deterministic specification, which makes all of them equal up to renaming of ids"])
