"""C17 -- union-find: same class iff connected, representative is the minimum id.
Sequential part: spec/UnionFind.tla model-checked exhaustively; its transition
cover and seeded random call sequences are executed on the real
egglog_union_find::UnionFind; the recorded trace is validated by
UnionFind_Trace.  Concurrent part: see conc17()."""
import json, os, time
from . import core

PID = "C17"


def seq_part(tier, V, cov):
    n = 4 if tier == "quick" else 5
    wd = core.workdir("c17")
    cfg = os.path.join(wd, "MC_UnionFind.cfg")
    base = open(os.path.join(core.SPEC, "MC_UnionFind.cfg")).read().replace("N = 4", "N = %d" % n)
    open(cfg, "w").write(base)
    res = core.run_tlc("MC_UnionFind", cfg=cfg, workers=4, timeout=1500)
    core.require_clean_model(res, "MC_UnionFind", ["MCUnion", "MCFind", "MCFindNaive", "MCReset"])
    if res.invariant:
        V.violation("model:" + res.invariant, "UnionFind model violates %s\n%s" % (res.invariant, res.error_text()),
                    dict(kind="model", module="MC_UnionFind", invariant=res.invariant))
    replays = []
    for line in res.printed:
        if line.startswith('<<"REPLAY"'):
            js = line[line.index(',') + 1:].strip()
            js = js[:js.rindex('>>')].strip()
            replays.append(json.loads(json.loads(js)))
    if not replays:
        raise core.ToolError("no REPLAY lines from MC_UnionFind")
    rp = os.path.join(wd, "replays.ndjson")
    with open(rp, "w") as f:
        for r in replays:
            f.write(json.dumps(r) + "\n")
    nrand, ln = (300, 40) if tier == "quick" else (5000, 60)
    trace = os.path.join(wd, "uf_trace.ndjson")
    core.conform(["uf", "--replays", rp, "--random", str(nrand), "--len", str(ln), "--seed", str(core.seed()), "--out", trace])
    tv = core.validate_trace("UnionFind_Trace", trace)
    events = core.read_ndjson(trace)
    if not tv["accepted"]:
        idx = tv["consumed"]            # 0-based index of first unmatched event
        start = max(i for i in range(idx + 1) if events[i]["e"] == "new")
        seq = events[start + 1: idx + 1]
        key = "seq:" + ("invariant-" + tv["invariant"] if tv["invariant"] else "unmatched-" + events[idx]["e"])
        V.violation(key, "union-find trace rejected at event %d (%s): %s" % (idx + 1, tv["invariant"] or "no matching action", json.dumps(events[idx])),
                    dict(kind="uf_seq", ops=[dict(op=e["e"], a=e.get("a", 0), b=e.get("b", 0)) for e in seq], first_unmatched=events[idx]))
    runs = sum(1 for e in events if e["e"] == "new")
    distinct = len({json.dumps([(e["e"], e.get("a"), e.get("b")) for e in events[i:j]])
                    for i, j in _runs(events)})
    cov["seq_model"] = dict(module="UnionFind", N=n, states=res.distinct, transitions=res.generated - 1,
                            actions={k: v[1] for k, v in res.actions.items()})
    cov["seq_traces"] = dict(runs=runs, events=len(events), replayed_transitions=len(replays), random_runs=nrand)
    return res, runs, distinct, replays[len(replays) // 2], events[:0]


def _runs(events):
    starts = [i for i, e in enumerate(events) if e["e"] == "new"] + [len(events)]
    return [(starts[k], starts[k + 1]) for k in range(len(starts) - 1)]


def scripts(tier):
    """one operation held at a schedule point (gate) while others run to completion: the
    interleaving shape of the model's counterexamples, enumerated over small menus"""
    import itertools, random
    U = lambda a, b: dict(op="union", a=a, b=b)
    F = lambda a: dict(op="find", a=a, b=0)
    S = lambda a, b: dict(op="same", a=a, b=b)
    setups = [[], [U(2, 3)], [U(2, 3), U(1, 2)], [U(0, 1)]]
    helds = [U(2, 3), U(1, 3), U(0, 3), F(3), S(1, 3), S(0, 3), S(3, 2), S(2, 3), S(3, 1)]
    menu = [U(1, 2), U(0, 1), U(0, 2), F(3), F(2), S(2, 3)]
    durings = [[m] for m in menu] + [list(p) for p in itertools.product(menu, repeat=2)]
    out = []
    for st in setups:
        for h in helds:
            for g in (30, 31, 32, 35):
                for d in durings:
                    out.append(dict(n=4, cap=2, setup=st, held=h, gate=g, during=d))
    # the model's counterexample (MC_ConcUF_A_strict) first
    first = dict(n=4, cap=2, setup=[], held=U(2, 3), gate=30, during=[U(1, 2), F(3)])
    if tier == "quick":
        random.Random(core.seed()).shuffle(out)
        out = out[:700]
    return [first] + out


CONC_MODELS = [("MC_ConcUF_A.cfg", "UFSafe"), ("MC_ConcUF_B.cfg", "UFSafe"), ("MC_ConcUF_D.cfg", "UFSafe"), ("MC_ConcUF_A_strict.cfg", "StrictLin")]


def conc_part(tier, V, cov):
    from concurrent.futures import ThreadPoolExecutor
    from . import sess
    models = list(CONC_MODELS) + ([("MC_ConcUF_C.cfg", "UFSafe")] if tier == "thorough" else [])
    states = trans = 0
    cov["conc_models"] = {}

    def run_model(m):
        return m, core.run_tlc("MC_ConcUF", cfg=m[0], workers=4, timeout=3000, xmx="6g")
    with ThreadPoolExecutor(max_workers=3) as ex:
        for (cfg, inv), res in ex.map(run_model, models):
            if res.invariant:
                V.violation("model:ConcUF:%s:%s" % (cfg.replace("MC_ConcUF_", "").replace(".cfg", ""), res.invariant),
                            "ConcUF (%s) violates %s\n%s" % (cfg, res.invariant, res.error_text()[:2500]),
                            dict(kind="model", module="MC_ConcUF", cfg=cfg, invariant=res.invariant))
            elif not res.noerror:
                raise core.ToolError("TLC did not finish on %s: %s" % (cfg, res.error_text()[:500]))
            else:
                missing = [a for a in ("Grow", "Call", "FLoad1", "FLoad2", "FSplit", "MCmp", "MCas") if res.actions.get(a, [0, 0])[1] == 0]
                if missing:
                    raise core.ToolError("vacuity: actions never taken in %s: %s" % (cfg, missing))
            states += res.distinct
            trans += res.generated
            cov["conc_models"][cfg] = dict(invariant=inv, states=res.distinct, generated=res.generated, violated=res.invariant,
                                           actions={a: v[1] for a, v in res.actions.items() if v[1] and a[0].isupper()})
    wd = core.workdir("c17c")
    scs = scripts(tier)
    sp = os.path.join(wd, "scripts.ndjson")
    core.write_ndjson(sp, scs)
    nrand = 400 if tier == "quick" else 6000
    jobs = [("s", 0)] + [("r", core.seed() + i) for i in range(1 if tier == "quick" else 4)]

    def run_job(job):
        kind, sd = job
        out = os.path.join(wd, "cuf_%s_%d.ndjson" % (kind, sd))
        args = ["cuf", "--out", out] + (["--scripts", sp] if kind == "s" else ["--random", str(nrand), "--seed", str(sd), "--perturb", "400"])
        p = core.conform(args, timeout=3000)
        info = json.loads(p.stdout.strip().splitlines()[-1])
        events, bads, diffs, res = sess.validate(out, module="ConcUF_Trace", timeout=3000)
        return kind, sd, info, events, bads
    nsc = nev = reached = 0
    points = {}
    sample = None
    with ThreadPoolExecutor(max_workers=3) as ex:
        for kind, sd, info, events, bads in ex.map(run_job, jobs):
            nev += len(events)
            begins = [i for i, e in enumerate(events) if e["e"] == "u_begin"]
            nsc += len(begins)
            reached += sum(1 for i in begins if events[i].get("reached") == 1)
            for i, c in enumerate(info["points"]):
                if c:
                    points[str(i)] = points.get(str(i), 0) + c
            if sample is None and kind == "r":
                sample = [{k: v for k, v in e.items() if k != "script"} for e in events[:10]]
            seen = set()
            for idx, code in bads:
                start = max(i for i in begins if i <= idx)
                b = events[start]
                key = "conc:%s:%s" % (code, b["kind"])
                if key in seen:
                    continue
                seen.add(key)
                V.violation(key, "%s: %s scenario %s; history: %s" % (code, b["kind"], json.dumps(b.get("script", dict(k=b.get("k"), seed=sd)))[:300],
                                                                     json.dumps([{k: v for k, v in e.items() if k != "th"} for e in events[start + 1: idx + 1]])[:700]),
                            dict(kind="cuf", scenario=b.get("kind"), script=b.get("script"), seed=sd, random=nrand, k=b.get("k"),
                                 ops=b["ops"], history=events[start + 1: idx + 1], code=code))
    missing = [p for p in (30, 31, 32, 33, 34, 35) if not points.get(str(p))]
    if missing:
        raise core.ToolError("vacuity: union-find schedule points never passed: %s (hooks not compiled in?)" % missing)
    if reached < len(scs) // 4:
        raise core.ToolError("vacuity: only %d of %d scripted scenarios reached their gate" % (reached, len(scs)))
    cov["conc_traces"] = dict(scenarios=nsc, scripted=len(scs), scripted_gate_reached=reached, random=nsc - len(scs), events=nev, points=points)
    return states, trans, nsc, sample


def replay(d, path):
    from . import sess
    r = d["replay"]
    wd = core.workdir("c17_replay")
    out = os.path.join(wd, "t.ndjson")
    if r.get("kind") == "cuf" and r.get("script"):
        sp = os.path.join(wd, "s.ndjson")
        core.write_ndjson(sp, [r["script"]])
        core.conform(["cuf", "--scripts", sp, "--out", out])
    elif r.get("kind") == "cuf":
        core.conform(["cuf", "--random", str(r["random"]), "--seed", str(r["seed"]), "--perturb", "400", "--out", out])
    elif r.get("kind") == "uf_seq":
        rp = os.path.join(wd, "r.ndjson")
        core.write_ndjson(rp, [r["ops"]])
        core.conform(["uf", "--replays", rp, "--out", out])
        tv = core.validate_trace("UnionFind_Trace", out)
        print("replay: accepted=%s consumed=%d/%d" % (tv["accepted"], tv["consumed"], tv["total"]))
        if not tv["accepted"]:
            print("VIOLATION property=C17 replay=%s" % path)
        return 0 if tv["accepted"] else 1
    else:
        print("no replay handler")
        return 2
    events, bads, diffs, res = sess.validate(out, module="ConcUF_Trace")
    for e in events[:40]:
        if e["e"] != "u_begin":
            print("  ", json.dumps(e))
    for i, c in bads[:10]:
        print("BAD at event %d: %s" % (i, c))
    if bads:
        print("VIOLATION property=C17 replay=%s" % path)
        return 1
    print("replay: history accepted")
    return 0


def check(tier):
    t0 = time.time()
    V = core.Verdict(PID)
    cov = {}
    res, runs, distinct, sample, _ = seq_part(tier, V, cov)
    cstates, ctrans, cscen, csample = conc_part(tier, V, cov)
    coverage = dict(states=res.distinct + cstates, transitions=max(res.generated - 1, 1) + ctrans,
                    traces_validated_against_impl=runs + cscen,
                    samples=[dict(kind="replayed transition-cover prefix (sequential union-find)", ops=sample),
                             dict(kind="concurrent scenario (call/return history)", events=csample)],
                    evaluations=runs + cscen, distinct_nontrivial=distinct,
                    rule="one run per transition of the quotient state graph of MC_UnionFind plus seeded random call sequences; distinct = distinct call sequences",
                    exhaustive=False, detail=cov)
    rc = V.finish()
    core.write_evidence(PID, tier, "model_checking", coverage, time.time() - t0, len(V.violations),
                        ["TLC explores the sequential model exhaustively at the stated N only; the concurrent model on four fixed 2-3 thread programs over 4 ids (sequentially consistent memory)",
                         "trace validation checks the runs that were executed, not all runs: OS schedules of the concurrent structure are sampled (seeded perturbation) and directed (one operation held at a gate while others complete)",
                         "a linking union whose returned parent is no longer a root is reported separately (known finding) from histories that are not linearizable even with the relaxed meaning of that return value"])
    return rc
