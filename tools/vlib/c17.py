"""C17 -- union-find: same class iff connected, representative is the minimum id.
Sequential part: spec/UnionFind.tla model-checked exhaustively; its transition
cover and seeded random call sequences are executed on the real
egglog_union_find::UnionFind; the recorded trace is validated by
UnionFind_Trace.  Concurrent part: see conc17()."""
import json, os, time
from . import core

PID = "C17"


def seq_part(tier, V, cov):
    n = 4 if tier == "quick" else 5
    wd = core.workdir("c17")
    cfg = os.path.join(wd, "MC_UnionFind.cfg")
    base = open(os.path.join(core.SPEC, "MC_UnionFind.cfg")).read().replace("N = 4", "N = %d" % n)
    open(cfg, "w").write(base)
    res = core.run_tlc("MC_UnionFind", cfg=cfg, workers=4, timeout=1500)
    core.require_clean_model(res, "MC_UnionFind", ["MCUnion", "MCFind", "MCFindNaive", "MCReset"])
    if res.invariant:
        V.violation("model:" + res.invariant, "UnionFind model violates %s\n%s" % (res.invariant, res.error_text()),
                    dict(kind="model", module="MC_UnionFind", invariant=res.invariant))
    replays = []
    for line in res.printed:
        if line.startswith('<<"REPLAY"'):
            js = line[line.index(',') + 1:].strip()
            js = js[:js.rindex('>>')].strip()
            replays.append(json.loads(json.loads(js)))
    if not replays:
        raise core.ToolError("no REPLAY lines from MC_UnionFind")
    rp = os.path.join(wd, "replays.ndjson")
    with open(rp, "w") as f:
        for r in replays:
            f.write(json.dumps(r) + "\n")
    nrand, ln = (300, 40) if tier == "quick" else (5000, 60)
    trace = os.path.join(wd, "uf_trace.ndjson")
    core.conform(["uf", "--replays", rp, "--random", str(nrand), "--len", str(ln), "--seed", str(core.seed()), "--out", trace])
    tv = core.validate_trace("UnionFind_Trace", trace)
    events = core.read_ndjson(trace)
    if not tv["accepted"]:
        idx = tv["consumed"]            # 0-based index of first unmatched event
        start = max(i for i in range(idx + 1) if events[i]["e"] == "new")
        seq = events[start + 1: idx + 1]
        key = "seq:" + ("invariant-" + tv["invariant"] if tv["invariant"] else "unmatched-" + events[idx]["e"])
        V.violation(key, "union-find trace rejected at event %d (%s): %s" % (idx + 1, tv["invariant"] or "no matching action", json.dumps(events[idx])),
                    dict(kind="uf_seq", ops=[dict(op=e["e"], a=e.get("a", 0), b=e.get("b", 0)) for e in seq], first_unmatched=events[idx]))
    runs = sum(1 for e in events if e["e"] == "new")
    distinct = len({json.dumps([(e["e"], e.get("a"), e.get("b")) for e in events[i:j]])
                    for i, j in _runs(events)})
    cov["seq_model"] = dict(module="UnionFind", N=n, states=res.distinct, transitions=res.generated - 1,
                            actions={k: v[1] for k, v in res.actions.items()})
    cov["seq_traces"] = dict(runs=runs, events=len(events), replayed_transitions=len(replays), random_runs=nrand)
    return res, runs, distinct, replays[len(replays) // 2], events[:0]


def _runs(events):
    starts = [i for i, e in enumerate(events) if e["e"] == "new"] + [len(events)]
    return [(starts[k], starts[k + 1]) for k in range(len(starts) - 1)]


def check(tier):
    t0 = time.time()
    V = core.Verdict(PID)
    cov = {}
    res, runs, distinct, sample, _ = seq_part(tier, V, cov)
    coverage = dict(states=res.distinct, transitions=max(res.generated - 1, 1),
                    traces_validated_against_impl=runs,
                    samples=[dict(kind="replayed transition-cover prefix (sequential union-find)", ops=sample)],
                    evaluations=runs, distinct_nontrivial=distinct,
                    rule="one run per transition of the quotient state graph of MC_UnionFind plus seeded random call sequences; distinct = distinct call sequences",
                    exhaustive=False, detail=cov)
    rc = V.finish()
    core.write_evidence(PID, tier, "model_checking", coverage, time.time() - t0, len(V.violations),
                        ["TLC explores the sequential model exhaustively at the stated N only",
                         "trace validation checks the runs that were executed, not all runs"])
    return rc
