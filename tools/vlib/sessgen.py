"""Seeded generator and renderer of egglog sessions in the fragment modelled by
spec/EggAbs.tla.  A session is generated in STRUCTURED form (the data the
specification interprets) and rendered to egglog text (what the real engine
runs); the harness copies the structured form verbatim into the trace."""
import random

BASE = {"i64", "bool", "Unit", "SetI"}


# ------------------------------------------------------------------ programs
class Prog:
    def __init__(self):
        self.funcs = []      # dict(name, kind, ins, out, merge, cost)
        self.rules = []      # dict(rs, body, head, name)
        self.rsets = []      # dict(name, kind, subs)
        self.sorts = ["E"]
        self.csorts = []     # container sorts: dict(name, kind, elems)

    def f(self, name):
        for i, fn in enumerate(self.funcs):
            if fn["name"] == name:
                return i + 1
        raise KeyError(name)

    def add(self, name, kind, ins, out, merge="", cost=1, **kw):
        d = dict(name=name, kind=kind, ins=list(ins), out=out, merge=merge, cost=cost)
        d.update(kw)
        self.funcs.append(d)
        return len(self.funcs)

    def struct(self):
        return dict(funcs=self.funcs, rules=[dict(rs=r["rs"], body=r["body"], head=r["head"], name=r["name"],
                                                  inclsub=r.get("inclsub", False)) for r in self.rules],
                    rsets=self.rsets, sorts=self.csorts)


CONT_PRESORT = {1: "Vec", 2: "Set", 3: "MultiSet", 4: "Pair", 5: "Map"}
CONT_OF = {1: "vec-of", 2: "set-of", 3: "multiset-of", 4: "pair", 5: "map-of"}


def cont_text(p, sortname, args):
    kind = [cs for cs in p.csorts if cs["name"] == sortname][0]["kind"]
    return "(%s %s)" % (CONT_OF[kind], " ".join(args))


def elem_sorts(p, sortname, n):
    cs = [c for c in p.csorts if c["name"] == sortname][0]
    return [cs["elems"][i % len(cs["elems"])] for i in range(n)]


MERGE_TEXT = {"min": "(min old new)", "max": "(max old new)", "or": "(or old new)", "and": "(and old new)",
              "union": "(set-union old new)", "inter": "(set-intersect old new)", "old": "old", "new": "new"}
SORT_TEXT = {"SetI": "SetI"}


def decl_text(p):
    out = []
    for s in p.sorts:
        out.append("(sort %s)" % s)
    if any("SetI" in fn["ins"] or fn["out"] == "SetI" for fn in p.funcs):
        out.append("(sort SetI (Set i64))")
    for cs in p.csorts:
        out.append("(sort %s (%s %s))" % (cs["name"], CONT_PRESORT[cs["kind"]], " ".join(cs["elems"])))
    for fn in p.funcs:
        ins = " ".join(fn["ins"])
        if fn["kind"] == "con":
            if fn.get("rel"):
                out.append("(relation %s (%s))" % (fn["name"], ins))
            else:
                opts = ""
                if fn.get("rcost", fn.get("cost", 1)) != 1:
                    opts += " :cost %d" % fn.get("rcost", fn["cost"])
                if fn.get("unext"):
                    opts += " :unextractable"
                out.append("(constructor %s (%s) %s%s)" % (fn["name"], ins, fn["out"], opts))
        else:
            if fn["merge"] == "none":
                out.append("(function %s (%s) %s :no-merge)" % (fn["name"], ins, fn["out"]))
            else:
                out.append("(function %s (%s) %s :merge %s)" % (fn["name"], ins, fn["out"], MERGE_TEXT[fn["merge"]]))
    for rs in p.rsets:
        if rs["kind"] == "comb":
            out.append("(unstable-combined-ruleset %s %s)" % (rs["name"], " ".join(rs["subs"])))
        else:
            out.append("(ruleset %s)" % rs["name"])
    return out


# ------------------------------------------------------------------ rendering
def lit_text(n, sort):
    if sort == "bool":
        return "true" if n else "false"
    if sort == "Unit":
        return "()"
    return str(n)


def gterm_text(p, t, sort="i64"):
    if "i" in t:
        return lit_text(t["i"], sort)
    if "set" in t:
        return "(set-of %s)" % " ".join(str(x) for x in t["set"]) if t["set"] else "(set-empty)"
    if "c" in t:
        es = elem_sorts(p, t["c"], len(t["a"]))
        return cont_text(p, t["c"], [gterm_text(p, a, es[i]) for i, a in enumerate(t["a"])])
    fn = p.funcs[t["f"] - 1]
    if not t["a"]:
        return "(%s)" % fn["name"]
    return "(%s %s)" % (fn["name"], " ".join(gterm_text(p, a, fn["ins"][i]) for i, a in enumerate(t["a"])))


def spec_text(sp, sort="i64"):
    if "v" in sp:
        return "v%d" % sp["v"]
    if "i" in sp:
        return lit_text(sp["i"], sort)
    return "_"


PATTERN_FIRST = [False]


def json_key(at):
    import json
    return json.dumps([at["f"], at["a"]], sort_keys=True)


def atom_text(p, at, wild):
    if at["k"] == "mk":
        return "(= %s %s)" % (spec_text(at["o"]), cont_text(p, at["c"], [spec_text(a) for a in at["a"]]))
    if at["k"] == "cmp":
        op = {"neq": "!=", "lt": "<", "le": "<=", "eq": "="}[at["op"]]
        return "(%s %s %s)" % (op, spec_text(at["l"]), spec_text(at["r"]))
    fn = p.funcs[at["f"] - 1]
    args = []
    for i, sp in enumerate(at["a"]):
        if "w" in sp:
            wild[0] += 1
            args.append("w%d__" % wild[0])
        else:
            args.append(spec_text(sp, fn["ins"][i]))
    app = "(%s%s)" % (fn["name"], "".join(" " + a for a in args))
    if "w" in at["o"]:
        return app
    if PATTERN_FIRST[0]:
        # (= <pattern> v): the core-rule canonicalisation then keeps the user's variable name (the
        # instrumented scheduler reads matches by variable name)
        return "(= %s %s)" % (app, spec_text(at["o"], fn["out"]))
    return "(= %s %s)" % (spec_text(at["o"], fn["out"]), app)


def facts_text(p, facts):
    wild = [0]
    return " ".join(atom_text(p, at, wild) for at in facts)


def hterm_text(p, t, sort="i64"):
    if "v" in t:
        return "v%d" % t["v"]
    if "i" in t:
        return lit_text(t["i"], sort)
    if "p" in t:
        return "(%s %s)" % (t["p"], " ".join(hterm_text(p, a) for a in t["a"]))
    if "c" in t:
        es = elem_sorts(p, t["c"], len(t["a"]))
        return cont_text(p, t["c"], [hterm_text(p, a, es[i]) for i, a in enumerate(t["a"])])
    fn = p.funcs[t["f"] - 1]
    return "(%s%s)" % (fn["name"], "".join(" " + hterm_text(p, a, fn["ins"][i]) for i, a in enumerate(t["a"])))


def act_text(p, h):
    k = h["k"]
    if k == "panic":
        return '(panic "boom")'
    if k == "let":
        return "(let v%d %s)" % (h["v"], hterm_text(p, h["t"]))
    if k == "ins":
        return hterm_text(p, h["t"])
    if k == "union":
        return "(union %s %s)" % (hterm_text(p, h["l"]), hterm_text(p, h["r"]))
    fn = p.funcs[h["f"] - 1]
    app = "(%s%s)" % (fn["name"], "".join(" " + hterm_text(p, a, fn["ins"][i]) for i, a in enumerate(h["a"])))
    if k == "set":
        return "(set %s %s)" % (app, hterm_text(p, h["t"], fn["out"]))
    return "(%s %s)" % (k, app)


def rule_text(p, r):
    opts = " :ruleset %s :name \"%s\"" % (r["rs"], r["name"])
    if r.get("inclsub"):
        opts += " :include-subsumed"
    return "(rule (%s) (%s)%s)" % (facts_text(p, r["body"]), " ".join(act_text(p, h) for h in r["head"]), opts)


def sched_text(p, s):
    k = s["k"]
    if k == "run":
        if s["until"]:
            return "(run %s :until %s)" % (s["rs"], facts_text(p, s["until"]))
        return "(run %s)" % s["rs"]
    body = " ".join(sched_text(p, b) for b in s["b"])
    if k == "rep":
        return "(repeat %d %s)" % (s["n"], body)
    if k == "sat":
        return "(saturate %s)" % body
    return "(seq %s)" % body


def cmd_text(p, c):
    k = c["k"]
    if k == "ins":
        return gterm_text(p, c["t"])
    if k == "union":
        return "(union %s %s)" % (gterm_text(p, c["a"]), gterm_text(p, c["b"]))
    if k in ("set", "subsume", "delete"):
        fn = p.funcs[c["f"] - 1]
        app = "(%s%s)" % (fn["name"], "".join(" " + gterm_text(p, a, fn["ins"][i]) for i, a in enumerate(c["a"])))
        if k == "set":
            return "(set %s %s)" % (app, gterm_text(p, c["v"], fn["out"]))
        return "(%s %s)" % (k, app)
    if k == "run":
        return "(run-schedule %s)" % sched_text(p, c["s"])
    if k == "check":
        return "(check %s)" % (c["text"] if "text" in c else facts_text(p, c["facts"]))
    if k == "extract":
        return "(extract %s)" % gterm_text(p, c["t"]) if c["n"] == 0 else "(extract %s %d)" % (gterm_text(p, c["t"]), c["n"])
    if k == "size":
        return "(print-size %s)" % p.funcs[c["f"] - 1]["name"]
    if k == "push":
        return "(push)"
    if k == "pop":
        return "(pop)"
    if k == "rule":
        return rule_text(p, p.rules[c["r"] - 1])
    if k == "bad":
        return c["text"]
    raise ValueError(k)


# ------------------------------------------------------------------ ground terms
def flatten(p, t, atoms, nv):
    """ground term -> variable denoting it; appends flat atoms"""
    if "i" in t:
        return {"i": t["i"]}
    args = [flatten(p, a, atoms, nv) for a in t["a"]]
    nv[0] += 1
    v = {"v": nv[0]}
    if "c" in t:
        atoms.append(dict(k="mk", c=t["c"], a=args, o=v))
    else:
        atoms.append(dict(k="tab", f=t["f"], a=args, o=v))
    return v


def check_eq(p, t1, t2):
    atoms, nv = [], [0]
    v1 = flatten(p, t1, atoms, nv)
    v2 = flatten(p, t2, atoms, nv)
    atoms.append(dict(k="cmp", op="eq", l=v1, r=v2))
    return dict(k="check", facts=atoms, text="(= %s %s)" % (gterm_text(p, t1), gterm_text(p, t2)))


def check_present(p, t):
    atoms, nv = [], [0]
    flatten(p, t, atoms, nv)
    return dict(k="check", facts=atoms, text=gterm_text(p, t))



# ------------------------------------------------------------------ custom-scheduler steps (C18)
def head_free_vars(rule):
    """variables the head uses that it does not bind itself (what the scheduler's matches carry)"""
    bound, free = set(), []

    def walk(t):
        if isinstance(t, dict):
            if "v" in t and set(t.keys()) <= {"v"}:
                if t["v"] not in bound and t["v"] not in free:
                    free.append(t["v"])
            for k, x in t.items():
                if k in ("a",):
                    for y in x:
                        walk(y)
                elif k in ("t", "l", "r"):
                    walk(x)
    for h in rule["head"]:
        if h["k"] == "let":
            walk(h["t"])
            bound.add(h["v"])
        else:
            walk({k: v for k, v in h.items() if k in ("t", "l", "r")})
            for y in h.get("a", []):
                walk(y)
    return sorted(free)


def var_sorts(p, rule):
    out = {}
    for at in rule["body"]:
        if at.get("k") == "tab":
            fn = p.funcs[at["f"] - 1]
            for sp, srt in zip(at["a"] + [at["o"]], fn["ins"] + [fn["out"]]):
                if "v" in sp:
                    out.setdefault(sp["v"], srt)
    return out


def rules_of(p, rs, active):
    rec = [q for q in p.rsets if q["name"] == rs][0]
    if rec["kind"] == "comb":
        return [x for sub in rec["subs"] for x in rules_of(p, sub, active)]
    return [i + 1 for i, r in enumerate(p.rules) if r["rs"] == rs and (i + 1) in active]


def sstep_cmd(p, rs, active, rng):
    rules = []
    for ri in rules_of(p, rs, active):
        rule = p.rules[ri - 1]
        hv = head_free_vars(rule)
        vs = var_sorts(p, rule)
        mode = rng.choice(["all", "all", "none", "mask", "mask", "mask"])
        rules.append(dict(idx=ri, name=rule["name"], vars=hv, sorts=["E" if vs.get(v, "E") not in BASE else vs[v] for v in hv],
                          mode=mode, mask=rng.randrange(1, 1 << 16), seek=0 if rng.random() < 0.25 else 1))
    return dict(k="sstep", rs=rs, rules=rules)


class Gen:
    def __init__(self, seed, profile=None):
        self.rng = random.Random(seed)
        self.pf = dict(consts=3, unary=1, binary=1, intcon=0, rels=1, fns=["min"], nrules=2, nsets=1,
                       ncmds=12, depth=2, subsume=0.0, delete=0.0, growth=True, checks=0.25, pushpop=0.0,
                       late_rules=0.0, sched_depth=1, panic=0.0, nomerge=0.0, maxint=3)
        if profile:
            self.pf.update(profile)

    # -- program
    def prog(self):
        r, pf = self.rng, self.pf
        p = Prog()
        for i in range(pf["consts"]):
            p.add("ABCDEFG"[i], "con", [], "E", cost=r.choice(pf.get("costs", [1])))
        costs = pf.get("costs", [1])
        for i in range(pf["unary"]):
            p.add(["F", "G"][i], "con", ["E"], "E", cost=r.choice(costs))
        for i in range(pf["binary"]):
            p.add(["H", "K"][i], "con", ["E", "E"], "E", cost=r.choice(costs))
        for i in range(pf["intcon"]):
            p.add(["N", "M"][i], "con", ["i64"], "E")
        for i in range(pf.get("mixcon", 0)):
            p.add(["Q", "P"][i], "con", ["i64", "E"], "E")          # an e-class column next to a base column
        for i in range(pf["rels"]):
            ar = r.choice([1, 2])
            p.add(["R", "S", "T"][i], "con", ["E"] * ar, "RelSort%d" % i, rel=True)
        for i, m in enumerate(pf["fns"]):
            out = {"min": "i64", "max": "i64", "or": "bool", "and": "bool", "union": "SetI", "inter": "SetI",
                   "none": "i64"}[m]
            ins = r.choice([["E"], ["E"], ["i64"], ["E", "E"]]) if m != "none" else ["i64"]
            p.add("f%s%d" % (m, i), "fn", ins, out, merge=m)
        for ci, kind in enumerate(pf.get("conts", [])):
            # container sorts over e-classes; "vv" = a vector of vectors (nesting)
            name, k, elems = {"vec": ("VecE", 1, ["E"]), "set": ("SetE", 2, ["E"]), "mset": ("MSetE", 3, ["E"]),
                              "pair": ("PairE", 4, ["E", "E"]), "vv": ("VecVecE", 1, ["VecE"]),
                              "sv": ("SetVecE", 2, ["VecE"]), "vvv": ("VecVecVecE", 1, ["VecVecE"])}[kind]
            if kind in ("vv", "sv", "vvv") and not any(c["name"] == "VecE" for c in p.csorts):
                p.csorts.append(dict(name="VecE", kind=1, elems=["E"]))
            if kind == "vvv" and not any(c["name"] == "VecVecE" for c in p.csorts):
                p.csorts.append(dict(name="VecVecE", kind=1, elems=["VecE"]))
            p.csorts.append(dict(name=name, kind=k, elems=elems))
            p.add("Hold%d" % ci, "con", [name], "E")
            if r.random() < 0.7:
                p.add("Rc%d" % ci, "con", [name], "RelSortC%d" % ci, rel=True)
            if r.random() < 0.6:
                p.add("fc%d" % ci, "fn", [name], "i64", merge=r.choice(["min", "max"]))
        nsets = pf["nsets"]
        for i in range(nsets):
            p.rsets.append(dict(name="rs%d" % i, kind="rules", subs=[]))
        if nsets >= 2 and r.random() < 0.5:
            p.rsets.append(dict(name="comb", kind="comb", subs=["rs0", "rs1"]))
        def dup_atoms(rule):
            keys = [json_key(at) for at in rule["body"] if at.get("k") == "tab"]
            return len(keys) != len(set(keys))
        for i in range(pf["nrules"]):
            rs = "rs%d" % r.randrange(nsets)
            rule = self.rule(p, rs, "rule%d" % i)
            # scheduler sessions read matches by variable name: two atoms with the same key make the engine
            # merge their output variables (functional-dependency dedup), and one of the names disappears
            for _ in range(20):
                if not (pf.get("sched", 0) > 0 and dup_atoms(rule)):
                    break
                rule = self.rule(p, rs, "rule%d" % i)
            p.rules.append(rule)
        for i in range(pf.get("novar_rules", 0)):
            # a rule whose head uses no variable (the scheduler then collects one unit marker per match)
            un = self.tables(p, lambda fn: fn["kind"] == "con" and fn["out"] == "E" and len(fn["ins"]) in (1, 2) and all(x == "E" for x in fn["ins"]))
            cs = self.tables(p, lambda fn: fn["kind"] == "con" and fn["out"] == "E" and not fn["ins"])
            if not un or len(cs) < 2:
                break
            f = r.choice(un)
            body = [dict(k="tab", f=f, a=[{"v": k + 1} for k in range(len(p.funcs[f - 1]["ins"]))], o={"w": 1})]
            a, b = r.sample(cs, 2)
            nested = [x for x in un if p.funcs[x - 1]["ins"] == ["E"]]
            head = r.choice([[dict(k="union", l={"f": a, "a": []}, r={"f": b, "a": []})],
                             [dict(k="ins", t={"f": nested[0], "a": [{"f": nested[0], "a": [{"f": a, "a": []}]}]})] if nested else
                             [dict(k="union", l={"f": a, "a": []}, r={"f": b, "a": []})]])
            p.rules.append(dict(rs="rs%d" % r.randrange(nsets), name="novar%d" % i, body=body, head=head))
        return p

    def tables(self, p, pred):
        return [i + 1 for i, fn in enumerate(p.funcs) if pred(fn)]

    def templ_rule(self, p, rs, name):
        """curated rule shapes that actually fire: rewrites, closure rules, lattice propagation"""
        r, pf = self.rng, self.pf
        V = lambda n: {"v": n}
        un = self.tables(p, lambda fn: fn["kind"] == "con" and fn["ins"] == ["E"] and fn["out"] == "E")
        bi = self.tables(p, lambda fn: fn["kind"] == "con" and fn["ins"] == ["E", "E"] and fn["out"] == "E")
        r1 = self.tables(p, lambda fn: fn.get("rel") and fn["ins"] == ["E"])
        r2 = self.tables(p, lambda fn: fn.get("rel") and fn["ins"] == ["E", "E"])
        ic = self.tables(p, lambda fn: fn["kind"] == "con" and fn["ins"] == ["i64"] and fn["out"] == "E")
        fe = self.tables(p, lambda fn: fn["kind"] == "fn" and fn["ins"] == ["E"] and fn["out"] == "i64")
        fb = self.tables(p, lambda fn: fn["kind"] == "fn" and fn["ins"] == ["E"] and fn["out"] == "bool")
        fs = self.tables(p, lambda fn: fn["kind"] == "fn" and fn["ins"] == ["E"] and fn["out"] == "SetI")
        T = lambda f, a, o: dict(k="tab", f=f, a=a, o=o)
        W = {"w": 1}
        opts = []
        if bi:
            h = r.choice(bi)
            opts.append(([T(h, [V(1), V(2)], V(3))], [dict(k="union", l=V(3), r={"f": h, "a": [V(2), V(1)]})]))
            opts.append(([T(h, [V(1), V(1)], V(2))], [dict(k="union", l=V(2), r=V(1))]))
            if pf["growth"]:
                opts.append(([T(h, [V(1), V(2)], V(3)), T(h, [V(3), V(4)], V(5))],
                             [dict(k="union", l=V(5), r={"f": h, "a": [V(1), {"f": h, "a": [V(2), V(4)]}]})]))
        if un:
            f = r.choice(un)
            opts.append(([T(f, [V(1)], V(2)), T(f, [V(2)], V(3))], [dict(k="union", l=V(3), r=V(1))]))
            if r1:
                opts.append(([T(r.choice(r1), [V(1)], W), T(f, [V(1)], V(2))], [dict(k="union", l=V(2), r=V(1))]))
                opts.append(([T(f, [V(1)], V(2))], [dict(k="ins", t={"f": r.choice(r1), "a": [V(r.choice([1, 2]))]})]))
                if pf["growth"]:
                    opts.append(([T(r.choice(r1), [V(1)], W)], [dict(k="ins", t={"f": f, "a": [V(1)]})]))
            if pf["subsume"] > 0:
                opts.append(([T(f, [V(1)], V(2)), T(f, [V(2)], V(3))],
                             [dict(k="union", l=V(3), r=V(1)), dict(k="subsume", f=f, a=[V(2)])]))
            if fe:
                g = r.choice(fe)
                val = {"p": "+", "a": [V(3), {"i": 1}]} if pf["growth"] and r.random() < 0.5 else V(3)
                opts.append(([T(f, [V(1)], V(2)), T(g, [V(1)], V(3))], [dict(k="set", f=g, a=[V(2)], t=val)]))
            if fb:
                g = r.choice(fb)
                opts.append(([T(f, [V(1)], V(2)), T(g, [V(1)], V(3))], [dict(k="set", f=g, a=[V(2)], t=V(3))]))
            if fs:
                g = r.choice(fs)
                opts.append(([T(f, [V(1)], V(2)), T(g, [V(1)], V(3))], [dict(k="set", f=g, a=[V(2)], t=V(3))]))
        if r2:
            q = r.choice(r2)
            opts.append(([T(q, [V(1), V(2)], W), T(q, [V(2), V(3)], W)], [dict(k="ins", t={"f": q, "a": [V(1), V(3)]})]))
            opts.append(([T(q, [V(1), V(2)], W)], [dict(k="union", l=V(1), r=V(2)) if r.random() < 0.5 else dict(k="ins", t={"f": q, "a": [V(2), V(1)]})]))
            if bi:
                opts.append(([T(r.choice(bi), [V(1), V(2)], V(3))], [dict(k="ins", t={"f": q, "a": [V(1), V(3)]})]))
        if ic and fe:
            opts.append(([T(r.choice(ic), [V(1)], V(2))], [dict(k="set", f=r.choice(fe), a=[V(2)], t=V(1))]))
        if ic and pf["growth"]:
            n = r.choice(ic)
            opts.append(([T(n, [V(1)], V(2)), dict(k="cmp", op="lt", l=V(1), r={"i": pf["maxint"]})],
                         [dict(k="ins", t={"f": n, "a": [{"p": "+", "a": [V(1), {"i": 1}]}]})]))
        copts = []
        for cs in p.csorts:
            holds = self.tables(p, lambda fn: fn["kind"] == "con" and fn["ins"] == [cs["name"]] and fn["out"] == "E")
            rcs = self.tables(p, lambda fn: fn.get("rel") and fn["ins"] == [cs["name"]])
            fcs = self.tables(p, lambda fn: fn["kind"] == "fn" and fn["ins"] == [cs["name"]])
            nel = 2 if cs["kind"] == 4 else r.choice([1, 2])
            if holds and un:
                copts.append(([T(r.choice(holds), [V(1)], V(2)), T(r.choice(un), [V(3)], V(2))], [dict(k="union", l=V(2), r=V(3))]))
            if holds and rcs:
                copts.append(([T(r.choice(rcs), [V(1)], W)], [dict(k="ins", t={"f": r.choice(holds), "a": [V(1)]})]))
                copts.append(([T(r.choice(holds), [V(1)], V(2))], [dict(k="ins", t={"f": r.choice(rcs), "a": [V(1)]})]))
            if cs["elems"][0] == "E" and holds:
                # build a container from matched classes
                b = [T(r.choice(un or bi or holds), ([V(1)] if un else [V(1), V(1)] if bi else [V(9)]), V(2))] if (un or bi) else None
                if b and un:
                    copts.append((b, [dict(k="ins", t={"f": r.choice(holds), "a": [{"c": cs["name"], "a": [V(1), V(2)][:nel] if nel == 2 else [V(2)]}]})]))
                if rcs and un:
                    copts.append(([T(r.choice(un), [V(1)], V(2)), dict(k="mk", c=cs["name"], a=[V(2)] * nel, o=V(3)), T(r.choice(rcs), [V(3)], W)],
                                  [dict(k="union", l=V(1), r=V(2))]))
            if holds and (un or bi):
                # match THROUGH the contents: build the (possibly nested) container from a matched class
                # with `mk` atoms and look the result up in a table keyed by it
                atoms = [T(r.choice(un), [V(1)], V(2))] if un else [T(r.choice(bi), [V(1), V(1)], V(2))]
                nv = [2]

                def build(sort, x):
                    """atoms computing a value of container sort `sort` whose leaves are the class variable x"""
                    c = [q for q in p.csorts if q["name"] == sort][0]
                    n = 2 if c["kind"] == 4 else 1
                    args = []
                    for es in elem_sorts(p, sort, n):
                        args.append(x if es == "E" else build(es, x))
                    nv[0] += 1
                    atoms.append(dict(k="mk", c=sort, a=args, o=V(nv[0])))
                    return V(nv[0])

                top = build(cs["name"], V(r.choice([1, 2])))
                nv[0] += 1
                atoms.append(T(r.choice(holds), [top], V(nv[0])))
                copts.append((atoms, [dict(k="union", l=V(nv[0]), r=V(1))] if r.random() < 0.5 or not r1
                              else [dict(k="ins", t={"f": r.choice(r1), "a": [V(nv[0])]})]))
                copts.append((list(atoms), [dict(k="union", l=V(nv[0]), r=V(2))]))
            if fcs and holds:
                g = r.choice(fcs)
                copts.append(([T(r.choice(holds), [V(1)], V(2)), T(g, [V(1)], V(3))],
                              [dict(k="set", f=g, a=[V(1)], t={"p": "+", "a": [V(3), {"i": 1}]} if pf["growth"] else V(3))]))
                if fe:
                    copts.append(([T(r.choice(holds), [V(1)], V(2)), T(g, [V(1)], V(3))], [dict(k="set", f=r.choice(fe), a=[V(2)], t=V(3))]))
        if copts and r.random() < pf.get("cont_rules", 0.6):
            opts = copts
        if not opts:
            return None
        body, head = r.choice(opts)
        if pf["panic"] > 0 and r.random() < pf["panic"]:
            head = head + [dict(k="panic")] if r.random() < 0.5 else [dict(k="panic")] + head
        return dict(rs=rs, body=body, head=head, name=name)

    def rule(self, p, rs, name):
        r, pf = self.rng, self.pf
        if r.random() < pf.get("templ", 0.65):
            t = self.templ_rule(p, rs, name)
            if t:
                return t
        vs = {}           # var -> sort
        nv = [0]

        def newv(sort):
            nv[0] += 1
            vs[nv[0]] = sort
            return {"v": nv[0]}

        def pick(sort, allow_new=True, allow_lit=True):
            have = [v for v, s in vs.items() if s == sort]
            if sort in ("i64", "bool") and allow_lit and r.random() < 0.2:
                return {"i": r.randrange(0, 2 if sort == "bool" else pf["maxint"])}
            if have and (not allow_new or r.random() < 0.55):
                return {"v": r.choice(have)}
            if not allow_new:
                return None
            return newv(sort)

        body = []
        natoms = r.choice([1, 1, 2, 2, 3])
        for _ in range(natoms):
            f = r.choice(self.tables(p, lambda fn: True))
            fn = p.funcs[f - 1]
            args = [pick(s) for s in fn["ins"]]
            if fn.get("rel"):
                o = {"w": 1}
            elif fn["out"] == "SetI":
                o = newv("SetI")
            else:
                o = pick(fn["out"])
            body.append(dict(k="tab", f=f, a=args, o=o))
        ev = [v for v, s in vs.items() if s == "E"]
        iv = [v for v, s in vs.items() if s == "i64"]
        if len(ev) >= 2 and r.random() < 0.15:
            a, b = r.sample(ev, 2)
            body.append(dict(k="cmp", op="neq", l={"v": a}, r={"v": b}))
        if len(iv) >= 2 and r.random() < 0.3:
            a, b = r.sample(iv, 2)
            body.append(dict(k="cmp", op=r.choice(["lt", "le", "neq"]), l={"v": a}, r={"v": b}))
        elif len(iv) >= 1 and r.random() < 0.2:
            body.append(dict(k="cmp", op=r.choice(["lt", "le", "neq"]), l={"v": r.choice(iv)}, r={"i": r.randrange(pf["maxint"])}))

        def hterm(sort, depth):
            have = [v for v, s in vs.items() if s == sort]
            if sort == "i64":
                if have and r.random() < 0.7:
                    if pf["growth"] and r.random() < 0.3:
                        return {"p": "+", "a": [{"v": r.choice(have)}, {"i": 1}]}
                    return {"v": r.choice(have)}
                return {"i": r.randrange(pf["maxint"])}
            if sort == "bool":
                return {"v": r.choice(have)} if have and r.random() < 0.6 else {"i": r.randrange(2)}
            if sort == "SetI":
                return {"v": r.choice(have)} if have else None
            if any(c["name"] == sort for c in p.csorts):
                if have and r.random() < 0.6:
                    return {"v": r.choice(have)}
                cs = [c for c in p.csorts if c["name"] == sort][0]
                n = 2 if cs["kind"] == 4 else r.choice([1, 2])
                args = [hterm(es, 0) for es in elem_sorts(p, sort, n)]
                return None if any(a is None for a in args) else {"c": sort, "a": args}
            if sort == "E":
                if have and (depth == 0 or not pf["growth"] or r.random() < 0.6):
                    return {"v": r.choice(have)}
                cons = self.tables(p, lambda fn: fn["kind"] == "con" and fn["out"] == "E"
                                   and (depth > 0 or not fn["ins"]) and (pf["growth"] or not fn["ins"]))
                if not cons:
                    return {"v": r.choice(have)} if have else None
                f = r.choice(cons)
                args = [hterm(s, depth - 1) for s in p.funcs[f - 1]["ins"]]
                if any(a is None for a in args):
                    return None
                return {"f": f, "a": args}
            return None

        head = []
        for _ in range(r.choice([1, 1, 2])):
            kinds = ["union", "ins", "rel"]
            if self.tables(p, lambda fn: fn["kind"] == "fn"):
                kinds += ["set", "set"]
            if pf["subsume"] > 0 and r.random() < pf["subsume"]:
                kinds = ["subsume"]
            if pf["delete"] > 0 and r.random() < pf["delete"]:
                kinds = ["delete"]
            k = r.choice(kinds)
            if k == "union":
                a, b = hterm("E", 1), hterm("E", 1)
                if a and b:
                    head.append(dict(k="union", l=a, r=b))
            elif k == "ins":
                t = hterm("E", 2)
                if t and "f" in t:
                    head.append(dict(k="ins", t=t))
            elif k == "rel":
                rels = self.tables(p, lambda fn: fn.get("rel"))
                if rels:
                    f = r.choice(rels)
                    args = [hterm(s, 1) for s in p.funcs[f - 1]["ins"]]
                    if all(args):
                        head.append(dict(k="ins", t={"f": f, "a": args}))
            elif k == "set":
                f = r.choice(self.tables(p, lambda fn: fn["kind"] == "fn"))
                fn = p.funcs[f - 1]
                args = [hterm(s, 1) for s in fn["ins"]]
                t = hterm(fn["out"], 1)
                if all(args) and t:
                    head.append(dict(k="set", f=f, a=args, t=t))
            elif k in ("subsume", "delete"):
                # subsume / delete a constructor row matched in the body
                cands = [at for at in body if at["k"] == "tab" and p.funcs[at["f"] - 1]["kind"] == "con"
                         and all("v" in a for a in at["a"]) and (k == "subsume" or p.funcs[at["f"] - 1].get("rel"))]
                if cands:
                    at = r.choice(cands)
                    head.append(dict(k=k, f=at["f"], a=[dict(a) for a in at["a"]]))
        if self.pf["panic"] > 0 and r.random() < self.pf["panic"]:
            head.insert(r.randrange(len(head) + 1), dict(k="panic"))
        if not head:
            ev = [v for v, s in vs.items() if s == "E"]
            if len(ev) >= 2:
                head.append(dict(k="union", l={"v": ev[0]}, r={"v": ev[1]}))
            else:
                rels = self.tables(p, lambda fn: fn.get("rel") and fn["ins"] == ["E"])
                if rels and ev:
                    head.append(dict(k="ins", t={"f": rels[0], "a": [{"v": ev[0]}]}))
                else:
                    head.append(dict(k="ins", t={"f": 1, "a": []}))
        return dict(rs=rs, body=body, head=head, name=name)

    # -- ground terms
    def gterm(self, p, sort, depth):
        r = self.rng
        if sort == "i64":
            return {"i": r.randrange(self.pf["maxint"])}
        if sort == "bool":
            return {"i": r.randrange(2)}
        if sort == "SetI":
            return {"set": sorted(set(r.randrange(self.pf["maxint"] + 1) for _ in range(r.randrange(0, 3))))}
        cons = self.tables(p, lambda fn: fn["kind"] == "con" and fn["out"] == sort and (depth > 0 or not fn["ins"] or fn["ins"] == ["i64"]))
        f = r.choice(cons)
        return {"f": f, "a": [self.gterm(p, s, depth - 1) for s in p.funcs[f - 1]["ins"]]}

    def sched(self, p, depth, safe_sat, gterm=None):
        r = self.rng
        gterm = gterm or (lambda sort, d: self.gterm(p, sort, d))
        names = [rs["name"] for rs in p.rsets]
        if depth == 0 or r.random() < 0.5:
            until = []
            if r.random() < 0.15:
                c = check_present(p, gterm("E", 1))
                until = c["facts"]
            return dict(k="run", rs=r.choice(names), until=until)
        k = r.choice(["rep", "seq", "sat"] if safe_sat else ["rep", "seq"])
        b = [self.sched(p, depth - 1, safe_sat, gterm) for _ in range(r.choice([1, 1, 2]))]
        if k == "rep":
            return dict(k="rep", n=r.choice([0, 1, 2, 3]), b=b)
        return dict(k=k, b=b)

    # -- invalid commands (C09): text that must be rejected without effect.
    # Each entry: (text, follow-up probes [(text, expected ok)]); names are unique per use.
    def bad_cmd(self, p, st, n):
        r = self.rng
        un = [fn["name"] for fn in p.funcs if fn["kind"] == "con" and fn["ins"] == ["E"] and fn["out"] == "E" and p.f(fn["name"]) in st["declf"]]
        f = un[0] if un else "F"
        fns = [fn for fn in p.funcs if fn["kind"] == "fn" and fn["out"] == "i64" and fn["ins"] == ["E"] and p.f(fn["name"]) in st["declf"]]
        rs = p.rsets[0]["name"]
        cands = [
            ("(%s)" % f, []),
            ("(%s (A) (B))" % f, []),
            ("(%s 1)" % f, []),
            ("(union 1 2)", []),
            ("(set (%s (A)) (B))" % f, []),
            ("(Zork%d (A))" % n, []),
            ("(union (A) (Zork%d))" % n, []),
            ("(run-schedule (run nosuch%d))" % n, []),
            ("(run nosuch%d 1)" % n, []),
            ("(rule ((= x (%s y))) ((union x z)) :ruleset %s)" % (f, rs), []),
            ("(rule ((= x (%s y))) ((Zork%d x)) :ruleset %s)" % (f, n, rs), []),
            ("(rule ((= x (%s y))) ((union x y)) :ruleset nosuch%d)" % (f, n), []),
            ("(rule ((= x (%s y)) (= x 1)) ((union x y)) :ruleset %s)" % (f, rs), []),
            ("(constructor A () E)", []),
            ("(sort E)", []),
            ("(ruleset %s)" % rs, []),
            ("(function gbad%d (i64) i64 :merge (bogus old new))" % n,
             [("(function gbad%d (i64) i64 :merge (min old new))" % n, 1), ("(set (gbad%d 1) 2)" % n, 1)]),
            ("(function gbad%d (i64) Nope :merge (min old new))" % n, [("(function gbad%d (i64) i64 :merge (min old new))" % n, 1)]),
            ("(function gbad%d (Nope) i64 :merge (min old new))" % n, [("(function gbad%d (i64) i64 :merge (max old new))" % n, 1)]),
            ("(constructor cbad%d (E Nope) E)" % n, [("(constructor cbad%d (E) E)" % n, 1)]),
            ("(datatype Dt%d (Da%d) (Db%d Nope))" % (n, n, n), [("(sort Dt%d)" % n, 1), ("(constructor Da%d () Dt%d)" % (n, n), 1)]),
            ("(relation rbad%d (Nope))" % n, [("(relation rbad%d (E))" % n, 1)]),
            ("(sort Sbad%d (Vec Nope))" % n, [("(sort Sbad%d (Vec E))" % n, 1)]),
            ("(union (A)", []),
            (")", []),
            ("(check", []),
            ("(check (= (A) \"unterminated))", []),
            ("(check (= (A) 1))", []),
            ("(check (= (A) (Zork%d)))" % n, []),
            ("(extract (Zork%d))" % n, []),
            ("(subsume (Zork%d (A)))" % n, []),
            ("(delete (Zork%d (A)))" % n, []),
            ("(let A (B))", []),
        ]
        if fns:
            g = fns[0]["name"]
            cands += [("(set (%s (A)) (A))" % g, []), ("(set (%s 1) 1)" % g, []), ("(set (%s (A) (A)) 1)" % g, []),
                      ("(check (= (%s (A)) (A)))" % g, []),
                      ("(rule ((= x (%s y))) ((set (%s x) (%s y))) :ruleset %s)" % (f, g, g, rs), [])]
        if any(q["kind"] == "comb" for q in p.rsets):
            cands.append(("(rule ((= x (%s y))) ((union x y)) :ruleset comb)" % f, []))
        return r.choice(cands)

    def session(self, sid, mode=None):
        """A session: declarations, then commands.  Generator-side bookkeeping (which functions /
        rules are declared in which e-graph, push depth) only serves to emit well-formed commands;
        the expected outcome of every command is decided by the specification."""
        r, pf = self.rng, self.pf
        PATTERN_FIRST[0] = pf.get("sched", 0) > 0
        p = self.prog()
        nlate = pf.get("late_funcs", 0)
        latef = []
        for i in range(nlate):
            if r.random() < 0.5:
                latef.append(p.add("X%d" % i, "con", ["E"], "E"))
            else:
                latef.append(p.add("fx%d" % i, "fn", ["E"], "i64", merge=r.choice(["min", "max"])))
        late = [i + 1 for i in range(len(p.rules)) if r.random() < pf["late_rules"]]
        active = [i + 1 for i in range(len(p.rules)) if (i + 1) not in late]
        declared = [i + 1 for i in range(len(p.funcs)) if (i + 1) not in latef]
        decls = decl_text(p)
        ftext = {}
        fi = 0
        for line in decls:
            if line.startswith(("(constructor", "(relation", "(function")):
                ftext[fi + 1] = line
                fi += 1
        setup = [line for line in decls if line not in [ftext[f] for f in latef]]
        setup += [rule_text(p, p.rules[i - 1]) for i in active]
        # generator-side view of each e-graph
        mk = lambda: dict(declf=set(declared), active=set(active), stack=[], late=list(late), latef=list(latef))
        slots = [mk()]
        cur = 0
        steps = []
        nbad = [0]

        def emit(c, text=None, slot=None):
            stp = dict(c={k: v for k, v in c.items() if k != "text"}, text=text or cmd_text(p, c))
            if len(slots) > 1:
                stp["slot"] = cur if slot is None else slot
            steps.append(stp)

        def declared_tables(st, pred):
            return [f for f in self.tables(p, pred) if f in st["declf"]]

        def gterm(st, sort, depth):
            if sort == "i64":
                return {"i": r.randrange(pf["maxint"])}
            if sort == "bool":
                return {"i": r.randrange(2)}
            if sort == "SetI":
                return {"set": sorted(set(r.randrange(pf["maxint"] + 1) for _ in range(r.randrange(0, 3))))}
            cso = [c for c in p.csorts if c["name"] == sort]
            if cso:
                n = 2 if cso[0]["kind"] == 4 else r.choice(pf.get("cont_n", [1, 2, 2, 3]))
                return {"c": sort, "a": [gterm(st, es, depth) for es in elem_sorts(p, sort, n)]}
            cons = declared_tables(st, lambda fn: fn["kind"] == "con" and fn["out"] == sort and (depth > 0 or not fn["ins"] or fn["ins"] == ["i64"])
                                   and not any(i2 in [c["name"] for c in p.csorts] for i2 in fn["ins"]))
            f = r.choice(cons)
            return {"f": f, "a": [gterm(st, s2, depth - 1) for s2 in p.funcs[f - 1]["ins"]]}

        for _ in range(pf["ncmds"]):
            st = slots[cur]
            x = r.random()
            if pf.get("clone", 0) > 0 and r.random() < pf["clone"]:
                if len(slots) == 1:
                    import copy
                    slots.append(copy.deepcopy(slots[0]))
                    steps.append(dict(op="clone", **{"from": 0}))
                    for s0 in steps:
                        pass
                cur = r.randrange(2)
                st = slots[cur]
            fns = declared_tables(st, lambda fn: fn["kind"] == "fn")
            cons = declared_tables(st, lambda fn: fn["kind"] == "con")
            if pf.get("bad", 0) > 0 and r.random() < pf["bad"]:
                nbad[0] += 1
                text, probes = self.bad_cmd(p, st, nbad[0])
                emit(dict(k="bad"), text)
                for ptext, ok in probes:
                    emit(dict(k="probe", ok=ok), ptext)
                continue
            if pf.get("sched", 0) > 0 and r.random() < pf["sched"]:
                c = sstep_cmd(p, r.choice([q["name"] for q in p.rsets]), st["active"], r)
                emit(c, "(sstep %s %s)" % (c["rs"], " ".join("%s:%s" % (q["name"], q["mode"]) for q in c["rules"])))
                continue
            if st["late"] and r.random() < 0.2:
                emit(dict(k="rule", r=st["late"][0]))
                st["active"].add(st["late"].pop(0))
            elif st["latef"] and r.random() < 0.25:
                f = st["latef"].pop(0)
                emit(dict(k="fdecl", f=f), ftext[f])
                st["declf"].add(f)
            elif pf.get("redecl", 0) > 0 and r.random() < pf["redecl"]:
                # declaring again what is (or is not any more) declared: the specification decides
                if r.random() < 0.5 and p.rules:
                    emit(dict(k="rule", r=r.randrange(len(p.rules)) + 1))
                elif latef:
                    f = r.choice(latef)
                    emit(dict(k="fdecl", f=f), ftext[f])
                # generator view is updated conservatively below (re-sync not needed: spec decides)
                continue
            elif x < 0.22:
                f = r.choice(cons)
                fn = p.funcs[f - 1]
                emit(dict(k="ins", t={"f": f, "a": [gterm(st, s2, pf["depth"] - 1) for s2 in fn["ins"]]}))
            elif x < 0.40:
                emit(dict(k="union", a=gterm(st, "E", pf["depth"]), b=gterm(st, "E", pf["depth"])))
            elif 0.40 <= x < 0.55 and fns:
                f = r.choice(fns)
                fn = p.funcs[f - 1]
                emit(dict(k="set", f=f, a=[gterm(st, s2, 1) for s2 in fn["ins"]], v=gterm(st, fn["out"], 0)))
            elif 0.55 <= x < 0.55 + pf["subsume"] * 0.3:
                cs = declared_tables(st, lambda fn: fn["kind"] == "con" and fn["out"] == "E" and fn["ins"])
                f = r.choice(cs)
                fn = p.funcs[f - 1]
                emit(dict(k="subsume", f=f, a=[gterm(st, s2, 1) for s2 in fn["ins"]]))
            elif 0.55 <= x < 0.85:
                emit(dict(k="run", s=self.sched(p, pf["sched_depth"], not pf["growth"] and pf["delete"] == 0,
                                                lambda sort, d: gterm(st, sort, d))))
            elif x < 0.55:
                emit(dict(k="union", a=gterm(st, "E", pf["depth"]), b=gterm(st, "E", pf["depth"])))
            elif pf["pushpop"] > 0 and r.random() < pf["pushpop"]:
                if st["stack"] and r.random() < 0.5:
                    emit(dict(k="pop"))
                    top = st["stack"].pop()
                    st["declf"], st["active"], st["late"], st["latef"] = top
                elif r.random() < 0.08:
                    emit(dict(k="pop"))           # possibly on an empty stack: the specification decides
                    if st["stack"]:
                        top = st["stack"].pop()
                        st["declf"], st["active"], st["late"], st["latef"] = top
                else:
                    emit(dict(k="push"))
                    st["stack"].append((set(st["declf"]), set(st["active"]), list(st["late"]), list(st["latef"])))
            else:
                emit(dict(k="run", s=dict(k="run", rs=r.choice([q["name"] for q in p.rsets]), until=[])))
            if pf.get("sizes", 0) > 0 and r.random() < pf["sizes"]:
                emit(dict(k="size", f=r.choice(sorted(st["declf"]))))
            if pf.get("extract", 0) > 0 and r.random() < pf["extract"]:
                emit(dict(k="extract", t=gterm(st, "E", pf["depth"]), n=r.choice(pf.get("variants", [0, 0, 0, 2, 3]))))
            if r.random() < pf["checks"]:
                if r.random() < 0.7:
                    c = check_eq(p, gterm(st, "E", pf["depth"]), gterm(st, "E", pf["depth"]))
                else:
                    c = check_present(p, gterm(st, "E", pf["depth"]))
                emit(c, cmd_text(p, c))
        return dict(id=sid, mode=mode or dict(threads=1, seminaive=True, enc="plain"), prog=p.struct(), active=active,
                    declared=declared, setup=setup, steps=steps, tables=[fn["name"] for fn in p.funcs])


def container_scenarios(n, seed):
    """Directed sessions for in-place container rebuilds (C14/C03): a row stores a container nested
    d levels deep whose leaf class L is later unioned with an older class M; a rule that matches
    THROUGH the nested contents (mk chain from a class bound by a relation) has already run once
    and can only fire after the rebuild changed the innermost container in place.  Depth, container
    kinds, creation order, the head of the rule and noise commands are randomised."""
    r = random.Random(seed)
    out = []
    for k in range(n):
        p = Prog()
        A = p.add("A", "con", [], "E"); B = p.add("B", "con", [], "E")
        F = p.add("F", "con", ["E"], "E")
        R = p.add("R", "con", ["E"], "RelSort0", rel=True)
        Reached = p.add("Reached", "con", ["E"], "RelSort1", rel=True)
        d = r.choice([1, 2, 2, 3, 3])
        sorts = []
        elem = "E"
        for lvl in range(d):
            kind = r.choice([1, 1, 2, 3]) if lvl > 0 else r.choice([1, 1, 2, 3, 4])
            name = "C%d" % lvl
            p.csorts.append(dict(name=name, kind=kind, elems=[elem, elem] if kind == 4 else [elem]))
            sorts.append(name)
            elem = name
        top = sorts[-1]
        Hold = p.add("Hold", "con", [top], "E")
        fn = p.add("fval", "fn", [top], "i64", merge="min") if r.random() < 0.5 else None
        p.rsets.append(dict(name="rs0", kind="rules", subs=[]))
        p.rsets.append(dict(name="rs1", kind="rules", subs=[]))
        V = lambda i: {"v": i}
        T = lambda f, a, o: dict(k="tab", f=f, a=a, o=o)
        W = {"w": 1}
        # rule: (R x), top = nest[x], (= e (Hold top)) => head
        atoms = [T(R, [V(1)], W)]
        nv = [1]

        def build(lvl, x):
            c = p.csorts[lvl]
            args = [x if lvl == 0 else build(lvl - 1, x) for _ in range(2 if c["kind"] == 4 else 1)]
            nv[0] += 1
            atoms.append(dict(k="mk", c=c["name"], a=args, o=V(nv[0])))
            return V(nv[0])

        tv = build(d - 1, V(1))
        nv[0] += 1
        e = V(nv[0])
        if fn and r.random() < 0.5:
            atoms.append(T(fn, [tv], e))
            head = [dict(k="set", f=fn, a=[tv], t={"i": 0})] if r.random() < 0.5 else [dict(k="ins", t={"f": Reached, "a": [V(1)]})]
        else:
            atoms.append(T(Hold, [tv], e))
            head = r.choice([[dict(k="ins", t={"f": Reached, "a": [e]})], [dict(k="union", l=e, r=V(1))],
                             [dict(k="ins", t={"f": F, "a": [e]})]])
        p.rules.append(dict(rs="rs0", name="through", body=atoms, head=head))
        p.rules.append(dict(rs="rs1", name="ff", body=[T(F, [V(1)], V(2)), T(F, [V(2)], V(3))], head=[dict(k="union", l=V(3), r=V(1))]))
        t = lambda f, *a: {"f": f, "a": list(a)}
        a, b = t(A), t(B)
        leafs = [t(F, a), t(F, b), b, t(F, t(F, a))]
        L = r.choice(leafs)
        M = r.choice([a, b, t(F, b)])

        def nest(lvl, x):
            c = p.csorts[lvl]
            return {"c": c["name"], "a": [x if lvl == 0 else nest(lvl - 1, x) for _ in range(2 if c["kind"] == 4 else 1)]}

        run0 = dict(k="run", s=dict(k="run", rs="rs0", until=[]))
        run1 = dict(k="run", s=dict(k="run", rs="rs1", until=[]))
        first = [dict(k="ins", t=M), dict(k="ins", t=L)]
        if r.random() < 0.35:
            first.reverse()
        hold = dict(k="set", f=fn, a=[nest(d - 1, L)], v={"i": r.randrange(1, 4)}) if (fn and atoms[-1]["f"] == fn) else dict(k="ins", t=t(Hold, nest(d - 1, L)))
        cmds = first + [hold, dict(k="ins", t=t(R, M))]
        noise = [dict(k="ins", t=t(Hold, nest(d - 1, r.choice(leafs)))), run1, dict(k="ins", t=t(R, r.choice([a, b]))),
                 dict(k="union", a=r.choice(leafs), b=r.choice(leafs)), check_eq(p, L, M), run0]
        for _ in range(r.randrange(0, 3)):
            cmds.insert(r.randrange(2, len(cmds) + 1), r.choice(noise))
        cmds += [run0]
        if r.random() < 0.5:
            cmds += [run0]
        cmds += [dict(k="union", a=L, b=M), run0]
        for _ in range(r.randrange(0, 3)):
            cmds.append(r.choice(noise + [run0]))
        cmds += [check_eq(p, t(Hold, nest(d - 1, L)), M), run0]
        steps = [dict(c={kk: vv for kk, vv in c.items() if kk != "text"}, text=cmd_text(p, c)) for c in cmds]
        out.append(dict(id="c14s-%d" % k, mode=dict(threads=1, seminaive=True, enc="plain"), prog=p.struct(), active=[1, 2],
                        setup=decl_text(p) + [rule_text(p, q) for q in p.rules], steps=steps, tables=[f["name"] for f in p.funcs]))
    return out
