"""`verif replay <path>`: re-runs a recorded violation against /repo's current tree."""
import json, os
from . import core, sess


def run(path):
    d = json.load(open(path))
    r = d["replay"]
    kind = r.get("kind")
    if kind == "session":
        s = r["session"]
        module = r.get("module", "EggAbs_Trace")
        tr = sess.run_sessions([s], "replay", env=r.get("env"))
        events, bads, diffs, res = sess.validate(tr, module=module)
        for e in events:
            if e["e"] == "cmd":
                print("  %s %-60s => %s %s upd=%s" % (e.get("slot", ""), e["text"][:60], e["res"], e.get("msg", "")[:60].replace("\n", " "), e.get("upd")))
            elif e["e"] != "decl":
                print("  -- %s %s" % (e["e"], e.get("why", "")))
        if bads:
            for i, c in bads:
                print("BAD at command %d: %s %s" % (i, c, diffs.get(i, "")))
            print("VIOLATION property=%s replay=%s" % (d["property"], path))
            return 1
        print("replay: trace accepted (%d events)" % len(events))
        return 0
    if kind == "model":
        print("model-level violation of %s in %s: re-run the check to reproduce" % (r.get("invariant"), r.get("module")))
        return 1
    mod = __import__("vlib." + d["property"].lower(), fromlist=["replay"])
    if hasattr(mod, "replay"):
        return mod.replay(d, path)
    print("no replay handler for kind %s" % kind)
    return 2
