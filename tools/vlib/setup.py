import glob, os, subprocess, sys
from . import core


def run():
    try:
        t = core.build_harness()
    except core.ToolError as e:
        print("setup: %s" % e)
        return 2
    print("setup: harness built in %.0fs" % t)
    bad = 0
    for f in sorted(glob.glob(os.path.join(core.SPEC, "*.tla"))):
        p = subprocess.run(["java", "-cp", core.TLA_CP, "tla2sany.SANY", os.path.basename(f)], cwd=core.SPEC,
                           stdout=subprocess.PIPE, stderr=subprocess.STDOUT, text=True)
        if p.returncode != 0 or "Semantic errors" in p.stdout or "Parse Error" in p.stdout or "Fatal errors" in p.stdout:
            print("setup: SANY rejects %s\n%s" % (f, p.stdout[-1500:]))
            bad += 1
    print("setup: %d modules parsed, %d rejected" % (len(glob.glob(os.path.join(core.SPEC, '*.tla'))), bad))
    return 2 if bad else 0
