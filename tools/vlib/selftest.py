"""`verif selftest`: evidence that the binding can fail.  For each trace module one recorded field of an
accepted trace (taken from the last run of the corresponding check, under work/) is altered and TLC must
reject it (print a BAD line).  Not a registered check; results are written to selftest.json."""
import copy, json, os
from . import core, sess


def first(events, pred):
    for i, e in enumerate(events):
        if pred(e):
            return i
    return None


def session_slice(events, i):
    s = max(k for k in range(i + 1) if events[k]["e"] == "decl")
    e = next((k for k in range(i + 1, len(events)) if events[k]["e"] == "decl"), len(events))
    return s, e


def corruptions():
    out = []
    # EggAbs_Trace: drop a logged row / change a canonical id / flip an outcome
    p = os.path.join(core.WORK, "C01_c01_0", "trace.ndjson")
    if os.path.exists(p):
        ev = core.read_ndjson(p)
        i = first(ev, lambda e: e["e"] == "cmd" and e["res"] == "ok" and sum(len(t) for t in e["tabs"]) >= 3 and e["c"]["k"] in ("ins", "union"))
        s, e = session_slice(ev, i)
        a = copy.deepcopy(ev[s:i + 1])
        t = next(t for t in a[-1]["tabs"] if t)
        t.pop()
        out.append(("EggAbs_Trace", None, "a logged row dropped", a, {"state-mismatch"}))
        b = copy.deepcopy(ev[s:i + 1])
        if b[-1]["canon"]:
            b[-1]["canon"][0][1] = b[-1]["canon"][0][1] + 1000
            out.append(("EggAbs_Trace", None, "a canonical id changed", b, {"raw-noncanonical-id", "state-mismatch"}))
        j = first(ev, lambda e: e["e"] == "cmd" and e["c"]["k"] == "check" and e["res"] == "ok")
        if j is not None:
            s, e = session_slice(ev, j)
            c = copy.deepcopy(ev[s:j + 1])
            c[-1]["res"] = "err"
            out.append(("EggAbs_Trace", None, "a check outcome flipped", c, {"check-failed-but-holds"}))
    # Conc_Trace: remove the end of a task / duplicate a start / alter a counter value
    p = os.path.join(core.WORK, "c19", "pool_%d.ndjson" % core.seed())
    if os.path.exists(p):
        ev = core.read_ndjson(p)
        b0 = first(ev, lambda e: e["e"] == "p_begin")
        k = first(ev, lambda e: e["e"] == "p_end")
        e1 = next(i for i in range(k, len(ev)) if ev[i]["e"] == "p_quiesce") + 1
        s = max(i for i in range(k) if ev[i]["e"] == "p_begin")
        a = [x for i, x in enumerate(ev[s:e1]) if i != k - s]
        out.append(("Conc_Trace", None, "a task's end event removed", a, {"scope-returned-before-all-its-tasks-finished", "task-never-ran"}))
        b = copy.deepcopy(ev[s:e1])
        st = first(b, lambda e: e["e"] == "p_start")
        b.insert(st + 1, copy.deepcopy(b[st]))
        out.append(("Conc_Trace", None, "a task start duplicated", b, {"task-started-twice"}))
        c = copy.deepcopy(ev[s:e1])
        h = first(c, lambda e: e["e"] == "h_op" and e["op"] == "c")
        c[h]["prev"][1] += 1
        out.append(("Conc_Trace", None, "an observed counter value altered (hook event)", c, {"scope-counter-history-is-not-a-chain-of-the-protocol", "two-counter-operations-observed-the-same-value"}))
        d = [x for x in ev[s:e1] if x["e"] != "h_done"]
        out.append(("Conc_Trace", None, "the done-signal hook events removed", d, {"done-signalled-other-than-once"}))
    # ConcUF_Trace: alter a find result
    p = os.path.join(core.WORK, "c17c", "cuf_r_%d.ndjson" % core.seed())
    if os.path.exists(p):
        ev = core.read_ndjson(p)
        k = first(ev, lambda e: e["e"] == "u_ret")
        s = max(i for i in range(k) if ev[i]["e"] == "u_begin")
        e1 = next(i for i in range(k, len(ev)) if ev[i]["e"] == "u_end") + 1
        a = copy.deepcopy(ev[s:e1])
        a[k - s]["res"] = [a[k - s]["res"][0] + 1, a[k - s]["res"][1] + 1]
        out.append(("ConcUF_Trace", None, "a returned representative altered", a, {"history-not-linearizable"}))
    # Syntax_Trace: drop a printed token
    p = os.path.join(core.WORK, "c15", "trace.ndjson")
    if os.path.exists(p):
        ev = core.read_ndjson(p)
        k = first(ev, lambda e: len(e["tok2"]) > 6 and e["res1"] == "ok")
        a = copy.deepcopy(ev[k:k + 1])
        del a[0]["tok2"][3]
        out.append(("Syntax_Trace", None, "a printed token dropped", a, {"printed-tokens-differ-from-the-specified-printing"}))
    # Table_Trace: alter a looked-up row
    p = os.path.join(core.WORK, "c16", "table_trace_1.ndjson")
    if os.path.exists(p):
        ev = core.read_ndjson(p)
        k = first(ev, lambda e: e["e"] == "merge" and any(g for g in e["obs"]["get"]))
        s = max(i for i in range(k + 1) if ev[i]["e"] in ("tnew", "unew"))
        a = copy.deepcopy(ev[s:k + 1])
        g = next(g for g in a[-1]["obs"]["get"] if g)
        g[1] += 1
        out.append(("Table_Trace", None, "a point lookup altered", a, {"get_row"}))
    return out


def run(args):
    core.build_harness()
    wd = core.workdir("selftest")
    results = []
    bad = 0
    for n, (module, cfg, what, events, expect) in enumerate(corruptions()):
        path = os.path.join(wd, "t%d.ndjson" % n)
        core.write_ndjson(path, events)
        try:
            ev, bads, diffs, res = sess.validate(path, module=module, cfg=cfg)
            codes = {c for _, c in bads}
        except core.ToolError as e:
            codes = {"TOOL-ERROR: " + str(e)[:100]}
        ok = bool(codes & expect)
        bad += 0 if ok else 1
        results.append(dict(module=module, corruption=what, bad_codes=sorted(codes), rejected=ok))
        print("%-14s %-50s %s %s" % (module, what, "REJECTED" if ok else "ACCEPTED(!)", sorted(codes)[:3]))
    json.dump(results, open(os.path.join(core.ROOT, "selftest.json"), "w"), indent=1)
    if not results:
        print("selftest: no traces under work/ (run the quick checks first)")
        return 2
    return 1 if bad else 0
