"""C05 -- a function's value is the merge of everything ever written to its key."""
from . import family, sess

PROFILES = [
    dict(fns=["min", "max", "or", "and", "union", "inter"], nrules=4, nsets=1, rels=1, ncmds=16, checks=0.05, sched_depth=1, depth=1, maxint=4),
    dict(fns=["union", "min", "none"], nrules=3, nsets=2, rels=1, ncmds=16, checks=0.05, sched_depth=2, depth=1, growth=False, maxint=4),
]
CONFIGS = [(family.SEQ, None),
           (dict(threads=4, seminaive=True, enc="plain"), sess.PAR0),
           (dict(threads=2, seminaive=True, enc="plain"), sess.PAR0)]


def writes(tier):
    from . import models, core
    return models.writes_sessions(150 if tier == "quick" else 3000, core.seed())


def check(tier):
    return family.check_groups(
        "C05", tier,
        [dict(fam="c05", model_specs=[("P2", "MC_EggAbs.cfg", 3, 4)], profiles=PROFILES, configs=CONFIGS, nrand=(20, 400)),
         dict(fam="c05w", model_specs=[("PW", "MC_EggAbs.cfg", 3, 4)], profiles=[], configs=CONFIGS, nrand=(0, 0), extra=writes)],
        ["merges limited to min, max, or, and, set-union, set-intersect and :no-merge over small integers",
         "the parallel insertion paths are forced with EGGLOG_PARALLEL_*_CUTOFF=0 in a child process"])
