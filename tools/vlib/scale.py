"""Large-database sessions (thousands of rows): they cross thresholds that small sessions never
reach (row-chunk sizes of the parallel rebuild, the incremental container rebuild above 1000
containers, compaction).  TLC cannot rename such databases by least terms in reasonable time, so
the trace module evaluates only the raw invariants of C04 on them (every stored id canonical, keys
unique, equal container contents share one id) plus the outcome of directed congruence checks."""
import random


def step(text, raw="skip", expect=None, k="noop"):
    d = dict(c=dict(k=k), text=text, raw=raw)
    if expect:
        d["expect"] = expect
    return d


def grid_session(sid, n, seed):
    """n x n grid of (Add (Num i) (Num j)); many unions land in ONE rule iteration (non-incremental rebuild
    of a table of n*n rows), then unions one at a time (incremental rebuild)."""
    r = random.Random(seed)
    setup = ["(sort E)", "(constructor Num (i64) E)", "(constructor Add (E E) E)", "(constructor W (E) E)",
             "(ruleset gen)", "(ruleset grid)", "(ruleset wrap)", "(ruleset fold)",
             "(rule ((= x (Num i)) (< i %d)) ((Num (+ i 1))) :ruleset gen)" % (n - 1),
             "(rule ((= a (Num i)) (= b (Num j))) ((Add a b)) :ruleset grid)",
             "(rule ((= e (Add a b))) ((W e)) :ruleset wrap)",
             "(rule ((= a (Num i)) (= b (Num j)) (= j (+ i %d)) (< i %d)) ((union a b)) :ruleset fold)" % (n // 2, n // 4)]
    steps = [step("(Num 0)"), step("(run-schedule (saturate (run gen)))"), step("(run-schedule (run grid))"),
             step("(run-schedule (run wrap))", raw="dump"),
             step("(run-schedule (run fold))", raw="dump")]
    i = r.randrange(0, n // 4)
    j = r.randrange(0, n)
    steps.append(step("(check (= (Add (Num %d) (Num %d)) (Add (Num %d) (Num %d))))" % (i, j, i + n // 2, j), expect="ok", k="check"))
    steps.append(step("(check (= (W (Add (Num %d) (Num %d))) (W (Add (Num %d) (Num %d)))))" % (j, i, j, i + n // 2), expect="ok", k="check"))
    for _ in range(3):
        a, b = r.randrange(n), r.randrange(n)
        steps.append(step("(union (Num %d) (Num %d))" % (a, b)))
        c = r.randrange(n)
        steps.append(step("(check (= (Add (Num %d) (Num %d)) (Add (Num %d) (Num %d))))" % (a, c, b, c), expect="ok", k="check"))
    steps.append(step("(run-schedule (run wrap))", raw="dump"))
    return dict(id=sid, mode=dict(threads=1, seminaive=True, enc="plain"), prog=dict(funcs=[], rules=[], rsets=[]), active=[],
                setup=setup, steps=steps, tables=["Num", "Add", "W"])


def container_session(sid, n, seed):
    """n containers (vec-of (Num i) (Num (+ i 100000))) held by rows: above 1000 live containers the engine
    rebuilds containers incrementally; successive unions rewrite one container in place twice."""
    r = random.Random(seed)
    setup = ["(sort E)", "(sort VE (Vec E))", "(constructor Num (i64) E)", "(constructor Wc () E)", "(constructor Zc () E)",
             "(constructor Yc () E)", "(function holder (i64) VE :no-merge)", "(constructor Hold (VE) E)",
             "(ruleset gen)", "(ruleset mk)",
             "(rule ((= x (Num i)) (< i %d)) ((Num (+ i 1))) :ruleset gen)" % (n - 1),
             "(rule ((= x (Num i))) ((set (holder i) (vec-of x (Num (+ i 100000)))) (Hold (vec-of x (Num (+ i 100000))))) :ruleset mk)"]
    k1, k2 = r.sample(range(n), 2)
    steps = [step("(Wc)"), step("(Zc)"), step("(Yc)"), step("(Num 0)"), step("(run-schedule (saturate (run gen)))"),
             step("(run-schedule (run mk))", raw="dump"),
             step("(union (Num %d) (Zc))" % k1, raw="dump"),
             step("(check (= (holder %d) (vec-of (Zc) (Num %d))))" % (k1, k1 + 100000), expect="ok", k="check"),
             step("(union (Zc) (Wc))", raw="dump"),
             step("(check (= (holder %d) (vec-of (Wc) (Num %d))))" % (k1, k1 + 100000), expect="ok", k="check"),
             step("(union (Num %d) (Yc))" % k2),
             step("(union (Yc) (Num %d))" % k1, raw="dump"),
             step("(check (= (Hold (vec-of (Wc) (Num %d))) (Hold (vec-of (Num %d) (Num %d)))))" % (k1 + 100000, k1, k1 + 100000), expect="ok", k="check")]
    return dict(id=sid, mode=dict(threads=1, seminaive=True, enc="plain"), prog=dict(funcs=[], rules=[], rsets=[]), active=[],
                setup=setup, steps=steps, tables=["Num", "holder", "Hold"])


def sessions(tier, seed):
    out = []
    if tier == "quick":
        out.append(grid_session("scale-grid-0", 100, seed))
        out.append(container_session("scale-cont-0", 1300, seed + 1))
    else:
        for k in range(3):
            out.append(grid_session("scale-grid-%d" % k, [100, 128, 150][k], seed + k))
        for k in range(3):
            out.append(container_session("scale-cont-%d" % k, [1100, 1500, 3000][k], seed + 10 + k))
    return out
