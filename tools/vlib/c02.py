"""C02 -- a rule run fires for exactly the matches of its body; plan independence.

Directed sessions: relations over i64 and over an eq-sort (values (N k), some unioned), loaded with seeded data
sets whose key fan-outs straddle the thresholds that steer the planner and executor (<= 8 rows, 16-row trie
nodes, > 32 tuples, dense blocks per key), one or two rules per ruleset whose bodies are drawn from a library of
hypergraph shapes (chains, stars, triangles, 4-cycles, arity-3 atoms, repeated variables in different patterns,
constants, primitive filters, function lookups), heads projecting the variables into an Out relation.  Each
session runs the ruleset, loads more data and runs again (cached plans, semi-naive deltas, refreshed indexes).
Every configuration (tree decomposition on / off, 1 and 4 threads with parallel cut-offs 0, naive evaluation)
must be accepted by the same specification: EggAbs.Matches, a declarative nested join, is the oracle."""
import json, random
from . import core, family, sess, sessgen
from .sessgen import Prog

V = lambda n: {"v": n}
W = {"w": 1}


def T(f, a, o=None):
    return dict(k="tab", f=f, a=a, o=o or W)


def shapes(p, R):
    """library of bodies over the relation indices R = dict(name -> function index); each entry: (body atoms, vars)"""
    r2, s2, t2, u2, r3, d3, e2, fe = R["R2"], R["S2"], R["T2"], R["U2"], R["R3"], R["D3"], R["E2"], R["fi"]
    L = []
    L.append(("chain3", [T(r2, [V(1), V(2)]), T(s2, [V(2), V(3)]), T(t2, [V(3), V(4)])]))
    L.append(("chain4", [T(r2, [V(1), V(2)]), T(s2, [V(2), V(3)]), T(t2, [V(3), V(4)]), T(u2, [V(4), V(5)])]))
    L.append(("star3", [T(r2, [V(1), V(2)]), T(s2, [V(1), V(3)]), T(t2, [V(1), V(4)])]))
    L.append(("triangle", [T(r2, [V(1), V(2)]), T(s2, [V(2), V(3)]), T(t2, [V(3), V(1)])]))
    L.append(("cycle4", [T(r2, [V(1), V(2)]), T(s2, [V(2), V(3)]), T(t2, [V(3), V(4)]), T(u2, [V(4), V(1)])]))
    L.append(("selfjoin", [T(r2, [V(1), V(2)]), T(r2, [V(2), V(3)])]))
    L.append(("selfjoin3", [T(r2, [V(1), V(2)]), T(r2, [V(2), V(3)]), T(r2, [V(3), V(4)])]))
    L.append(("rep-yy", [T(r3, [V(1), V(2), V(2)])]))
    L.append(("rep-xwx", [T(r3, [V(1), V(2), V(1)])]))
    L.append(("rep-yy-k", [T(r3, [V(1), V(2), V(2)]), T(R["K1"], [V(1)])]))
    L.append(("rep-xwx-k", [T(r3, [V(1), V(2), V(1)]), T(R["K1"], [V(1)])]))
    L.append(("rep-join", [T(r3, [V(1), V(2), V(2)]), T(r2, [V(1), V(3)])]))
    L.append(("rep-join2", [T(r3, [V(1), V(2), V(1)]), T(s2, [V(2), V(3)])]))
    L.append(("arity3-path", [T(r2, [V(1), V(2)]), T(d3, [V(2), V(3), V(4)]), T(s2, [V(3), V(5)])]))
    L.append(("dense-path5", [T(r2, [V(1), V(2)]), T(s2, [V(2), V(3)]), T(t2, [V(3), V(4)]), T(d3, [V(4), V(5), V(6)]), T(u2, [V(5), V(7)])]))
    L.append(("d3-star", [T(d3, [V(1), V(2), V(3)]), T(r2, [V(1), V(4)]), T(s2, [V(2), V(5)])]))
    L.append(("const", [T(r2, [{"i": 1}, V(1)]), T(s2, [V(1), V(2)])]))
    L.append(("const3", [T(d3, [V(1), {"i": 0}, V(2)]), T(r2, [V(2), V(3)])]))
    L.append(("neq", [T(r2, [V(1), V(2)]), T(s2, [V(2), V(3)]), dict(k="cmp", op="neq", l=V(1), r=V(3))]))
    L.append(("lt", [T(r2, [V(1), V(2)]), T(r2, [V(3), V(2)]), dict(k="cmp", op="lt", l=V(1), r=V(3))]))
    L.append(("fn-lookup", [T(r2, [V(1), V(2)]), T(fe, [V(2)], V(3)), T(s2, [V(3), V(4)])]))
    L.append(("fn-const", [T(fe, [V(1)], {"i": 1}), T(r2, [V(1), V(2)])]))
    L.append(("eq-sort", [T(e2, [V(1), V(2)]), T(e2, [V(2), V(3)])]))
    L.append(("eq-triangle", [T(e2, [V(1), V(2)]), T(e2, [V(2), V(3)]), T(e2, [V(3), V(1)])]))
    L.append(("product", [T(t2, [V(1), V(2)]), T(u2, [V(3), V(4)])]))
    L.append(("clique4", [T(r2, [V(1), V(2)]), T(r2, [V(1), V(3)]), T(r2, [V(2), V(3)]), T(s2, [V(3), V(4)])]))
    return L


def body_vars(body):
    vs = []
    for at in body:
        xs = (at["a"] + [at["o"]]) if at["k"] == "tab" else [at["l"], at["r"]]
        for sp in xs:
            if "v" in sp and sp["v"] not in vs:
                vs.append(sp["v"])
    return vs


def count_matches(body, data, limit):
    """rough size of the join (sizing only, never an oracle): number of partial substitutions explored"""
    subs = [{}]
    work = 0
    for at in body:
        if at["k"] != "tab":
            continue
        rows = data.get(at["f"], [])
        new = []
        for s in subs:
            for row in rows:
                ok = True
                s2 = dict(s)
                for sp, val in zip(at["a"] + [at["o"]], row):
                    if "w" in sp:
                        continue
                    if "i" in sp:
                        if val != ("i", sp["i"]):
                            ok = False
                            break
                    elif sp["v"] in s2:
                        if s2[sp["v"]] != val:
                            ok = False
                            break
                    else:
                        s2[sp["v"]] = val
                work += 1
                if ok:
                    new.append(s2)
            if work > limit:
                return work
        subs = new
    return work + len(subs)


def session(rng, sid):
    p = Prog()
    N = p.add("N", "con", ["i64"], "E")
    R = {}
    for name, ins in (("R2", ["i64", "i64"]), ("S2", ["i64", "i64"]), ("T2", ["i64", "i64"]), ("U2", ["i64", "i64"]),
                      ("R3", ["i64", "i64", "i64"]), ("D3", ["i64", "i64", "i64"]), ("E2", ["E", "E"]), ("K1", ["i64"])):
        R[name] = p.add(name, "con", ins, "Rel" + name, rel=True)
    R["fi"] = p.add("fi", "fn", ["i64"], "i64", merge="min")
    lib = shapes(p, R)
    nrules = rng.choice([1, 1, 2, 2, 3])
    picks = [rng.choice(lib) for _ in range(nrules)]
    x = rng.random()
    if x < 0.12:
        picks = [q for q in lib if q[0] in ("rep-yy", "rep-xwx")]          # two repeated-variable patterns over one table
    elif x < 0.3:
        picks = [q for q in lib if q[0] in ("rep-yy-k", "rep-xwx-k")]      # ... each joined with a key relation
    elif x < 0.45:
        picks = [q for q in lib if q[0] == "dense-path5"]
    outs = []
    p.rsets.append(dict(name="rs0", kind="rules", subs=[]))
    for k, (nm, body) in enumerate(picks):
        vs = body_vars(body)
        keep = vs if (len(vs) <= 4 or rng.random() < 0.5) else sorted(rng.sample(vs, 4))
        sorts = []
        for v in keep:
            srt = "i64"
            for at in body:
                if at["k"] == "tab":
                    fn = p.funcs[at["f"] - 1]
                    for sp, s0 in zip(at["a"] + [at["o"]], fn["ins"] + [fn["out"]]):
                        if sp.get("v") == v:
                            srt = s0
            sorts.append(srt)
        o = p.add("Out%d" % k, "con", sorts, "RelOut%d" % k, rel=True)
        p.rules.append(dict(rs="rs0", name="q%d-%s" % (k, nm), body=body, head=[dict(k="ins", t={"f": o, "a": [V(v) for v in keep]})]))
    # data: join columns share a small key domain; per table a mixture of planted key combinations, dense blocks per
    # key (arity 3: many rows per key value, few values of the middle column, contiguous in insertion order), rows
    # satisfying repeated-variable patterns, and filler with large values (so that tables are not tiny)
    kd = rng.choice([2, 3, 3, 4])

    def gen_rows(f, n):
        ar = len(p.funcs[f - 1]["ins"])
        rows = set()
        style = rng.choice(["planted", "planted", "blocks", "uniform"])
        if ar == 3 and style in ("blocks", "planted"):
            ne = rng.choice([1, 2, 2, 3])
            ng = rng.choice([3, 9, 17, 20, 25])
            for d in range(kd):
                for e in range(ne):
                    for g in range(ng):
                        if rng.random() < 0.95:
                            rows.add((d, e, 1000 * d + 100 * e + g))
            for d in range(kd):                       # rows with repeated values: (d, i, i) and (d, i, d)
                for i in range(rng.choice([0, 6, 20, 40])):
                    rows.add((d, i, i) if i % 2 == 0 else (d, i, d))
        elif ar == 1:
            for k in range(kd + rng.randrange(3)):
                rows.add((k,))
        elif style in ("planted", "blocks"):
            for x in range(kd):
                for y in range(kd):
                    if rng.random() < 0.6:
                        rows.add((x, y))
            for x in range(kd):
                for j in range(rng.choice([0, 0, 5, 18, 30])):
                    rows.add((x, 50 + j) if rng.random() < 0.5 else (50 + j, x))
        while len(rows) < n:
            rows.add(tuple(rng.randrange(10 + 100 * j, 60 + 100 * j) if rng.random() < 0.7 else rng.randrange(kd) for j in range(ar)))
        return sorted(rows)

    path5 = [nm for nm, _ in picks] == ["dense-path5"]
    if path5:
        # directed data for the 5-atom path: key chains through the binary relations, dense blocks in D3
        base_rows = gen_rows
        nd = rng.choice([2, 3, 4])
        ne = rng.choice([1, 2, 3])
        ng = rng.choice([5, 17, 20, 24])
        fold = rng.choice([1, 1, 2])

        def gen_rows(f, n):
            name = p.funcs[f - 1]["name"]
            rows = set()
            if name == "D3":
                for d in range(nd):
                    for e in range(ne):
                        for g in range(ng):
                            rows.add((d, e, 1000 * d + 100 * e + g))
                return sorted(rows)
            if name == "U2":
                for e in range(ne):
                    rows.add((e, 50 + e))
            else:
                for k in range(nd * fold):
                    rows.add((k, k // fold if name == "T2" else k))
            for j in range(rng.choice([0, 3, 7, 7, 12, 20])):
                rows.add((10 + j, 10 + j) if name == "R2" else (10 + j, 110 + j) if name == "S2" else (210 + j, 10 + j))
            return sorted(rows)

    def term(f, row):
        fn = p.funcs[f - 1]
        return {"f": f, "a": [{"f": N, "a": [{"i": x}]} if s0 == "E" else {"i": x} for x, s0 in zip(row, fn["ins"])]}
    used = sorted({at["f"] for _, b in picks for at in b if at["k"] == "tab"})
    steps = []
    data = {}
    def load(scale):
        items, sets = [], []
        for f in used:
            fn = p.funcs[f - 1]
            if fn["kind"] == "fn":
                for x in range(rng.choice([4, 12, 40])):
                    if rng.random() < 0.7:
                        sets.append(dict(k="set", f=f, a=[{"i": x}], v={"i": rng.randrange(4)}))
                continue
            n = rng.choice([3, 8, 9, 17, 30, 40]) * scale // 2
            rows = gen_rows(f, max(n, 1))
            data.setdefault(f, [])
            data[f] += [tuple(("i", x) for x in row) for row in rows]
            items += [term(f, row) for row in rows]
        c = dict(k="load", items=items)
        steps.append(dict(c=c, text=" ".join(sessgen.gterm_text(p, t) for t in items) or "(N 0)"))
        if not items:
            steps[-1]["c"] = dict(k="load", items=[{"f": N, "a": [{"i": 0}]}])
        for c in sets[:25]:
            steps.append(dict(c=c, text=sessgen.cmd_text(p, c)))
    load(2)
    if R["E2"] in used:
        for _ in range(rng.randrange(1, 4)):
            c = dict(k="union", a={"f": N, "a": [{"i": rng.randrange(6)}]}, b={"f": N, "a": [{"i": rng.randrange(6)}]})
            steps.append(dict(c=c, text=sessgen.cmd_text(p, c)))
    run = dict(k="run", s=dict(k="run", rs="rs0", until=[]))
    steps.append(dict(c=run, text=sessgen.cmd_text(p, run)))
    load(1)
    steps.append(dict(c=run, text=sessgen.cmd_text(p, run)))
    steps.append(dict(c=run, text=sessgen.cmd_text(p, run)))
    work = max(count_matches(b, data, 60000) for _, b in picks)
    return dict(id=sid, mode=dict(threads=1, seminaive=True, enc="plain"), prog=p.struct(), active=list(range(1, len(p.rules) + 1)),
                setup=sessgen.decl_text(p) + [sessgen.rule_text(p, r) for r in p.rules], steps=steps,
                tables=[fn["name"] for fn in p.funcs], maxrows=100000, shapes=[nm for nm, _ in picks]), work


def sessions(tier):
    """quotas per group, so that every tier has the directed shapes: the 5-atom path over dense blocks (decomposed
    plans), the paired repeated-variable patterns (shared trie nodes), and random combinations of the library"""
    rng = random.Random(core.seed() * 7 + 2)
    quota = dict(path5=5, rep=5, other=10) if tier == "quick" else dict(path5=150, rep=150, other=600)
    out = []
    tries = 0
    while any(v > 0 for v in quota.values()) and tries < 40000:
        tries += 1
        s, work = session(rng, "c02-%d" % len(out))
        g = "path5" if s["shapes"] == ["dense-path5"] else "rep" if all(x.startswith("rep-") for x in s["shapes"]) and len(s["shapes"]) == 2 else "other"
        if quota[g] <= 0 or work > 8000:            # keep the oracle's nested join affordable for TLC
            continue
        quota[g] -= 1
        out.append(s)
    return out


DEC = dict(threads=1, seminaive=True, enc="plain")
NODEC = dict(threads=1, seminaive=True, enc="plain", nodecomp=True)
PAR = dict(threads=4, seminaive=True, enc="plain")
NAIVE = dict(threads=1, seminaive=False, enc="plain", nodecomp=True)


def post(V, results, detail):
    shapes = {}
    for tag, events, bads, diffs in results[:1]:
        for e in events:
            if e["e"] == "decl":
                for r in e["prog"]["rules"]:
                    k = r["name"].split("-", 1)[1]
                    shapes[k] = shapes.get(k, 0) + 1
    detail["query_shapes"] = shapes


def check(tier):
    return family.check_groups(
        "C02", tier,
        [dict(fam="c02", model_specs=[], profiles=[], configs=[(DEC, None), (NODEC, None), (PAR, sess.PAR0)], nrand=(0, 0), extra=sessions)],
        ["the oracle is EggAbs.Matches (a declarative left-to-right join over the logged input tables, evaluated by TLC); data sets are capped so that "
         "the join stays affordable (<= 25 000 partial substitutions), i.e. a few hundred rows: cardinality-driven planner choices beyond that are not reached",
         "query shapes come from a fixed library (chains, stars, triangles, 4-cycles, self-joins, arity-3 atoms, two repeated-variable patterns over one table, "
         "constants, != and < filters, function lookups, eq-sort joins with unions, products) combined 1-3 per ruleset; plans themselves are not inspected, "
         "only the resulting database after each of three runs (second and third after loading more data)"],
        chunks=16, post=post)
