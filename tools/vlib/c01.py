"""C01 -- equality is exactly the congruence closure of what was asserted."""
from . import family, sess

PROFILES = [
    dict(fns=[], nrules=3, nsets=2, rels=2, intcon=1, unary=2, binary=1, ncmds=14, checks=0.6, sched_depth=1, depth=2),
    dict(fns=["min"], nrules=4, nsets=1, rels=1, ncmds=12, checks=0.5, sched_depth=2, growth=False, depth=2),
]


def check(tier):
    return family.check_family(
        "C01", tier, "c01",
        [("P1", "MC_EggAbs_CC.cfg", 3, 4), ("P3", "MC_EggAbs.cfg", 3, 4)],
        PROFILES, [(family.SEQ, None)], (40, 600),
        ["ground terms bounded by the model universes / generator depth 2",
         "EqIsCC (oracle = independent congruence closure) is checked by TLC on model program P1 only; "
         "on other programs equality in EggAbs is the closure by construction of Normalize",
         "trace validation covers the executed sessions only"])
