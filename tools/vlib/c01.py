"""C01 -- equality is exactly the congruence closure of what was asserted."""
from . import family, sess

PROFILES = [
    dict(fns=[], nrules=3, nsets=2, rels=2, intcon=1, unary=2, binary=1, ncmds=14, checks=0.6, sched_depth=1, depth=2),
    dict(fns=["min"], nrules=4, nsets=1, rels=1, ncmds=12, checks=0.5, sched_depth=2, growth=False, depth=2),
]


def scale_sessions(tier):
    from . import scale, core
    return scale.sessions(tier, core.seed())


def check(tier):
    return family.check_groups(
        "C01", tier,
        [dict(fam="c01", model_specs=[("P1", "MC_EggAbs_CC.cfg", 3, 4), ("P3", "MC_EggAbs.cfg", 3, 4)], profiles=PROFILES,
              configs=[(family.SEQ, None)], nrand=(40, 600)),
         dict(fam="c01scale", model_specs=[], profiles=[], nrand=(0, 0), extra=scale_sessions,
              configs=[(family.SEQ, None), (dict(threads=4, seminaive=True, enc="plain"), sess.PAR0)])],
        ["ground terms bounded by the model universes / generator depth 2",
         "EqIsCC (oracle = independent congruence closure) is checked by TLC on model program P1 only; "
         "on other programs equality in EggAbs is the closure by construction of Normalize",
         "trace validation covers the executed sessions only",
         "large databases (10^4 rows, >1000 containers; family c01scale) are checked for the raw invariants only (every stored id canonical, "
         "keys unique) and for directed congruence instances, not renamed by least terms"])
