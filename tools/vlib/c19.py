"""C19 -- the thread pool and shared-memory helpers are safe under any interleaving.

Model level: ThreadPool.tla (scope counters, shared queue, helping, backup workers,
panics) and ROLock.tla (RCU token protocol) are checked exhaustively by TLC at small
constants: safety invariants, deadlock freedom and termination/progress under weak
fairness.  Conformance level: seeded stress scenarios on the real primitives (with the
cfg(egglog_verif) schedule-perturbation points switched on) are recorded as totally
ordered event logs and validated by TLC against Conc_Trace.tla."""
import json, os, time
from concurrent.futures import ThreadPoolExecutor
from . import core, sess

MODELS = {
    "quick": [("MC_ThreadPool", "MC_ThreadPool.cfg", ["BodySpawnA", "BodySpawnB", "BodyOpen", "Complete", "Send", "Wait", "Block",
                                                       "HelpDone", "HelpPop", "IdlePop", "BBlock", "BJoin", "Ret"]),
              ("MC_ThreadPool", "MC_ThreadPool_Panic.cfg", ["BodyPanic", "RecPanic", "Ret"]),
              ("MC_ROLock", "MC_ROLock.cfg", ["SeeWriter", "AwaitWriter", "WCas", "WDrop", "WWaitReaders", "WRelease1", "WRelease2", "RExit"]),
              ("MC_ConcVec", "MC_ConcVec.cfg", ["PushWrite", "PushGrow", "PushPublish", "ReadHead", "ReadView"])],
    "thorough": [("MC_ThreadPool", "MC_ThreadPool_T.cfg", ["BBlock", "BJoin", "HelpPop"]),
                 ("MC_ThreadPool", "MC_ThreadPool_Panic_T.cfg", ["BodyPanic", "RecPanic"]),
                 ("MC_ROLock", "MC_ROLock_T.cfg", ["WCas", "WWaitReaders"]),
                 ("MC_ConcVec", "MC_ConcVec_T.cfg", ["PushGrow", "ReadView"])],
}
KINDS = ["pool", "rolock", "cvec", "pwriter", "notif"]
# schedule points (concurrency/src/verif.rs ids) that the stress runs must have passed
POINTS = {"pool": [1, 2, 3, 4, 5, 6, 8], "rolock": [10, 11, 12, 13, 14, 15], "cvec": [16, 17, 18], "pwriter": [19, 20, 21], "notif": [10]}


def check(tier):
    t0 = time.time()
    V = core.Verdict("C19")
    states = trans = 0
    detail = {"models": {}, "stress": {}}
    models = MODELS["quick"] + (MODELS["thorough"] if tier == "thorough" else [])
    models = [m for m in models if os.path.exists(os.path.join(core.SPEC, m[1]))]
    if os.environ.get("VERIF_DEV_SKIP_MODELS"):      # development aid (mutant runs): never set by the registered commands
        models = []

    def run_model(m):
        mod, cfg, must = m
        return m, core.run_tlc(mod, cfg=cfg, workers=4 if tier == "quick" else 8, timeout=3000, xmx="6g")
    with ThreadPoolExecutor(max_workers=3) as ex:
        for (mod, cfg, must), res in ex.map(run_model, models):
            if res.invariant:
                V.violation("model:%s:%s" % (cfg, res.invariant), "%s violates %s\n%s" % (cfg, res.invariant, res.error_text()[:1500]),
                            dict(kind="model", module=mod, cfg=cfg, invariant=res.invariant))
            core.require_clean_model(res, cfg, must_take=must)
            states += res.distinct
            trans += res.generated
            detail["models"][cfg] = dict(states=res.distinct, generated=res.generated, depth=res.depth,
                                         actions={a: v[1] for a, v in res.actions.items() if v[1] and a[0].isupper()})
    # conformance: stress scenarios on the real primitives, validated by Conc_Trace
    n = 60 if tier == "quick" else 1500
    seeds = [core.seed()] if tier == "quick" else [core.seed() + i for i in range(4)]
    wd = core.workdir("c19")
    jobs = []
    for kind in KINDS:
        for sd in seeds:
            jobs.append((kind, sd))

    def run_job(job):
        kind, sd = job
        out = os.path.join(wd, "%s_%d.ndjson" % (kind, sd))
        p = core.conform(["conc", "--kind", kind, "--seed", str(sd), "--n", str(n), "--perturb", "350", "--out", out], timeout=3000, check=False)
        if p.returncode != 0:
            # the process running the primitives died (signal / abort): memory unsafety of the code under test is data
            if p.returncode < 0 or p.returncode in (101, 134, 139):
                return kind, sd, out, dict(scenarios=0, points=[], crashed=p.returncode, stderr=p.stderr[-600:]), [], []
            raise core.ToolError("harness failed (%d): conc %s\n%s" % (p.returncode, kind, p.stderr[-1500:]))
        info = json.loads(p.stdout.strip().splitlines()[-1])
        events, bads, diffs, res = sess.validate(out, module="Conc_Trace", timeout=3000)
        return kind, sd, out, info, events, bads
    nev = ntr = 0
    samples = []
    with ThreadPoolExecutor(max_workers=5) as ex:
        for kind, sd, out, info, events, bads in ex.map(run_job, jobs):
            if info.get("crashed") is not None:
                V.violation("c19:%s:process-crashed" % kind, "the %s stress driver died with status %s (seed %d): %s" % (kind, info["crashed"], sd, info.get("stderr", "")[-300:]),
                            dict(kind="conc", driver=kind, seed=sd, n=n, perturb=350, status=info["crashed"]))
                continue
            nev += len(events)
            ntr += info["scenarios"]
            st = detail["stress"].setdefault(kind, dict(scenarios=0, events=0, points={}, hook_events={}))
            st["scenarios"] += info["scenarios"]
            st["events"] += len(events)
            for i, c in enumerate(info["points"]):
                if c:
                    st["points"][str(i)] = st["points"].get(str(i), 0) + c
            for e in events:
                if e["e"].startswith("h_"):
                    key = e["e"] + (":" + str(e.get("how", e.get("mode", e.get("op", "")))) if e["e"] in ("h_pop", "h_wait", "h_op") else "")
                    st["hook_events"][key] = st["hook_events"].get(key, 0) + 1
            if not samples and kind == "pool":
                samples.append(dict(kind="pool scenario (first events)", events=[{k: v for k, v in e.items()} for e in events[:14]]))
            seen = set()
            for idx, code in bads:
                if code in seen:
                    continue
                seen.add(code)
                start = max(i for i in range(idx + 1) if events[i]["e"].endswith("_begin"))
                end = next((i for i in range(idx + 1, len(events)) if events[i]["e"].endswith("_begin")), len(events))
                V.violation("c19:%s:%s" % (kind, code), "%s in %s scenario k=%s (seed %d), event %d: %s" % (
                    code, kind, events[start].get("k"), sd, idx - start, json.dumps(events[idx])[:300]),
                    dict(kind="conc", driver=kind, seed=sd, n=n, perturb=350, scenario=events[start], first_bad=dict(index=idx - start, code=code, event=events[idx]),
                         events=events[start:min(end, start + 400)]))
    # vacuity: every schedule point of a driven primitive was passed, the hook events were seen
    for kind, pts in POINTS.items():
        got = detail["stress"].get(kind, {}).get("points", {})
        missing = [p for p in pts if not got.get(str(p))]
        if missing:
            raise core.ToolError("vacuity: schedule points never passed in %s runs: %s (hooks not compiled in?)" % (kind, missing))
    hp = detail["stress"]["pool"]["hook_events"]
    for need in ("h_op:e", "h_op:c", "h_done", "h_pop:idle", "h_pop:help"):
        if not hp.get(need):
            raise core.ToolError("vacuity: hook event %s never logged by the pool scenarios" % need)
    coverage = dict(states=states, transitions=trans, traces_validated_against_impl=ntr, samples=samples, evaluations=ntr,
                    events=nev, exhaustive=False, detail=detail,
                    rule="states/transitions: TLC totals of the design models; traces: stress scenarios executed on the real primitives and accepted event by event by Conc_Trace")
    rc = V.finish()
    core.write_evidence("C19", tier, "model_checking", coverage, time.time() - t0, len(V.violations),
                        ["the design models are sequentially consistent (no weak-memory behaviours)",
                         "OS schedules of the real code are sampled (seeded perturbation at the hook points), not enumerated; the models enumerate all interleavings at small constants",
                         "pool sizes 1..16, <= 12 tasks and <= 5 scopes per scenario; NotificationList is driven without reset concurrent to notify (its documented precondition)"])
    return rc


def replay(d, path):
    """re-runs the recorded stress driver with the same seed and validates the new log"""
    r = d["replay"]
    wd = core.workdir("c19_replay")
    out = os.path.join(wd, "trace.ndjson")
    core.conform(["conc", "--kind", r["driver"], "--seed", str(r["seed"]), "--n", str(r["n"]), "--perturb", str(r["perturb"]), "--out", out], timeout=3000)
    events, bads, diffs, res = sess.validate(out, module="Conc_Trace", timeout=3000)
    for i, c in bads[:20]:
        print("BAD at event %d: %s %s" % (i, c, json.dumps(events[i])[:200]))
    if bads:
        print("VIOLATION property=C19 replay=%s" % path)
        return 1
    print("replay: %d events accepted (schedules are sampled: a schedule-dependent violation may need several runs)" % len(events))
    return 0
