"""C16 -- the table store behaves like a keyed map with timestamp-ordered scans."""
import json, os, random, time
from . import core, sess, family

PID = "C16"


def check(tier):
    t0 = time.time()
    V = core.Verdict(PID)
    quick = tier == "quick"
    wd = core.workdir("c16")
    cfg = os.path.join(wd, "MC_Table.cfg")
    txt = open(os.path.join(core.SPEC, "MC_Table.cfg")).read()
    if not quick:
        txt = txt.replace("Keys = {0, 1}", "Keys = {0, 1, 2}").replace("MaxTs = 2", "MaxTs = 3")
    open(cfg, "w").write(txt)
    res = core.run_tlc("MC_Table", cfg=cfg, workers=12, timeout=3000)
    core.require_clean_model(res, "MC_Table", ["MCIns", "MCRem", "MCTick", "MCMerge", "MCClear"])
    if res.invariant:
        V.violation("model:Table:" + res.invariant, "Table model violates %s\n%s" % (res.invariant, res.error_text()[:1500]),
                    dict(kind="model", module="MC_Table", invariant=res.invariant))
    replays = []
    for line in res.printed:
        if line.startswith('<<"REPLAY"'):
            js = line[line.index(',') + 1:].strip()
            replays.append(json.loads(json.loads(js[:js.rindex('>>')].strip())))
    if not replays:
        raise core.ToolError("no REPLAY lines from MC_Table")
    key = lambda r: json.dumps(r, sort_keys=True)
    full = {key(r) for r in replays}
    prefixes = {key(r[:k]) for r in replays for k in range(1, len(r))}
    mx = [r for r in replays if key(r) not in prefixes]
    random.Random(core.seed()).shuffle(mx)
    nrep = 1500 if quick else 20000
    rp = os.path.join(wd, "replays.ndjson")
    with open(rp, "w") as f:
        for r in mx[:nrep]:
            f.write(json.dumps(r) + "\n")
    results = []
    nrand, ln = (150, 120) if quick else (3000, 200)
    for threads, env, unsorted in ((1, None, False), (4, sess.PAR0, False), (1, None, True), (4, sess.PAR0, True)):
        trace = os.path.join(wd, "table_trace_%d%s.ndjson" % (threads, "u" if unsorted else ""))
        args = ["table", "--threads", str(threads), "--random", str(nrand if not unsorted else nrand // 2), "--len", str(ln),
                "--seed", str(core.seed() + threads), "--out", trace]
        if unsorted:
            args += ["--unsorted"]           # the table without a sort column, with a combining merge (Table!KeepTs)
        else:
            args += ["--uf-random", str(nrand // 2)]
        if threads == 1:
            args += ["--replays", rp]
        core.conform(args, env=env, timeout=1200)
        events, bads, diffs = split_validate(trace, cfg="Table_Trace_U.cfg" if unsorted else None)
        results.append(("t%d%s%s" % (threads, "-par0" if env else "", "-unsorted" if unsorted else ""), events, bads))
    nruns = 0
    nev = 0
    distinct = set()
    crossed = 0
    for tag, events, bads in results:
        nev += len(events)
        starts = [i for i, e in enumerate(events) if e["e"] in ("tnew", "unew")] + [len(events)]
        nruns += len(starts) - 1
        for a, b in zip(starts, starts[1:]):
            distinct.add(json.dumps([(e["e"], e.get("k"), e.get("v"), e.get("a"), e.get("b")) for e in events[a:b]]))
        crossed += sum(1 for e in events if e.get("obs", {}).get("ver", [0, 0])[0] > 0 and e["e"] == "merge")
        for idx, code in bads:
            start = max(i for i in range(idx + 1) if events[i]["e"] in ("tnew", "unew"))
            ops = [dict(op=e["e"], k=e.get("k", e.get("a")), v=e.get("v", e.get("b"))) for e in events[start + 1: idx + 1]]
            V.violation("%s:%s" % (code, tag), "table trace: %s at event %d of a run of %d operations (%s): %s" % (
                code, idx - start, len(ops), tag, json.dumps({k: v for k, v in events[idx].items() if k != "obs"})),
                dict(kind="table", config=tag, ops=ops, first_bad={k: v for k, v in events[idx].items() if k != "obs"}))
    coverage = dict(states=res.distinct, transitions=max(res.generated - 1, 1), traces_validated_against_impl=nruns,
                    samples=[dict(kind="replayed maximal history of MC_Table", ops=mx[0])],
                    evaluations=nruns, distinct_nontrivial=len(distinct),
                    rule="runs = sampled maximal histories of the transition cover of MC_Table (compaction threshold scaled to 1) + seeded random "
                         "operation sequences of 120-200 operations on SortedWritesTable (crossing the real threshold stale > max(16, n/2)) and "
                         "on DisplacedTable, serial and 4 threads with cut-offs 0; distinct = distinct operation sequences",
                    exhaustive=False,
                    detail=dict(model_actions={k: v[1] for k, v in res.actions.items()}, replayed=min(nrep, len(mx)), maximal_histories=len(mx),
                                events=nev, merges_after_a_compaction=crossed))
    rc = V.finish()
    core.write_evidence(PID, tier, "model_checking", coverage, time.time() - t0, len(V.violations),
                        ["two table shapes: [key, val, ts] sorted by ts with merge = keep the larger val, and the same columns without a sort column with a "
                         "combining merge (larger val, timestamp of the replaced row); keys 0..3; arities 0 and 2..4 and index-backed reads through RuleSet queries are not driven",
                         "row order inside one timestamp is not specified (shard order): scans are compared as sets plus timestamp order"])
    return rc


def split_validate(trace, cfg=None):
    """validates in parallel chunks split at run boundaries"""
    events = core.read_ndjson(trace)
    starts = [i for i, e in enumerate(events) if e["e"] in ("tnew", "unew")]
    chunks = 8
    per = (len(starts) + chunks - 1) // chunks
    parts = []
    for k in range(0, len(starts), per):
        lo = starts[k]
        hi = starts[k + per] if k + per < len(starts) else len(events)
        path = "%s.part%d" % (trace, len(parts))
        core.write_ndjson(path, events[lo:hi])
        parts.append((lo, path))
    from concurrent.futures import ThreadPoolExecutor
    def work(part):
        lo, path = part
        ev, bads, diffs, res = sess.validate(path, module="Table_Trace", cfg=cfg)
        return [(lo + i, c) for i, c in bads]
    bads = []
    with ThreadPoolExecutor(max_workers=chunks) as ex:
        for b in ex.map(work, parts):
            bads += b
    return events, sorted(bads), {}
