"""C11 -- term and proof encodings preserve observable behaviour."""
from . import family

PLAIN = dict(threads=1, seminaive=True, enc="plain")
TERM = dict(threads=1, seminaive=True, enc="term")
PROOF = dict(threads=1, seminaive=True, enc="proof")
REPARSE = dict(threads=1, seminaive=True, enc="reparse")
PROFILES = [
    dict(fns=["min"], nrules=3, nsets=1, rels=2, ncmds=12, checks=0.5, sched_depth=1, depth=2, growth=False, sizes=0.4, extract=0.3, variants=[0],
         costs=[1, 1, 2, 3]),
    dict(fns=[], nrules=4, nsets=2, rels=1, unary=2, ncmds=12, checks=0.5, sched_depth=2, depth=2, growth=False, sizes=0.4, extract=0.3, variants=[0],
         subsume=0.3, pushpop=0.3),
    dict(fns=["max"], nrules=3, nsets=1, rels=1, ncmds=12, checks=0.4, sched_depth=1, depth=2, growth=True, sizes=0.3, extract=0.2, variants=[0],
         late_rules=0.3),
]


def check(tier):
    return family.check_groups(
        "C11", tier,
        [dict(fam="c11", model_specs=[], profiles=PROFILES, configs=[(PLAIN, None), (TERM, None), (PROOF, None), (REPARSE, None)], nrand=(10, 250))],
        ["every session is run in four treatments: plain, term encoding, proofs, and `resolve_program` on a term-encoding engine whose printed output is "
         "parsed and run by a plain engine (reserved names allowed); all four traces must be accepted by the same deterministic specification, which fixes "
         "the outcome (ok / error) of every command, every check, every print-size and every extraction cost; in the three encoded treatments the "
         "engine's own tables (views, union-find tables) are not compared row by row",
         "sessions stay in the fragment program_supports_proofs accepts: constructors, relations, functions with min/max merge, rules with "
         "insert/union/set heads, subsume, push/pop, schedules; no containers, no delete, no function lookups in actions"],
        chunks=10)
