"""C11 -- term and proof encodings preserve observable behaviour."""
from . import family

PLAIN = dict(threads=1, seminaive=True, enc="plain")
TERM = dict(threads=1, seminaive=True, enc="term")
PROOF = dict(threads=1, seminaive=True, enc="proof")
REPARSE = dict(threads=1, seminaive=True, enc="reparse")
PROFILES = [
    dict(fns=["min"], nrules=3, nsets=1, rels=2, ncmds=12, checks=0.5, sched_depth=1, depth=2, growth=False, sizes=0.4, extract=0.3, variants=[0],
         costs=[1, 1, 2, 3]),
    dict(fns=[], nrules=4, nsets=2, rels=1, unary=2, ncmds=12, checks=0.5, sched_depth=2, depth=2, growth=False, sizes=0.4, extract=0.3, variants=[0],
         subsume=0.3, pushpop=0.3),
    dict(fns=["max"], nrules=3, nsets=1, rels=1, ncmds=12, checks=0.4, sched_depth=1, depth=2, growth=True, sizes=0.3, extract=0.2, variants=[0],
         late_rules=0.3),
    # a constructor with an e-class column next to a base column, subsumed tuples whose children are unioned later
    dict(fns=[], consts=3, unary=1, binary=0, mixcon=1, maxint=2, nrules=4, nsets=1, rels=1, ncmds=14, checks=0.5, sched_depth=1, depth=2, growth=False,
         sizes=0.3, subsume=0.7, templ=0.3),
    # functions and relations keyed by containers of e-classes
    dict(fns=[], consts=3, unary=1, binary=0, conts=["vec"], nrules=3, nsets=1, rels=1, ncmds=14, checks=0.5, sched_depth=1, depth=2, growth=False,
         sizes=0.3, cont_n=[1, 2, 2]),
]


def scenarios(tier):
    """directed histories for the encoding's rebuild rules: (a) a tuple of a constructor with an e-class column next to a
    base column is subsumed, then its e-class child is unioned into an OLDER class, then a rule over that constructor runs;
    (b) a function keyed by a container of e-classes gets a row, an element is unioned into an older class, and the
    function is queried with the canonical container.  Class ages, values, noise commands are randomised."""
    import random
    from . import core, sessgen
    from .sessgen import Prog, flatten
    r = random.Random(core.seed() * 13 + 5)
    out = []
    n = 10 if tier == "quick" else 300
    V = lambda k: {"v": k}
    for k in range(n):
        p = Prog()
        A = p.add("A", "con", [], "E"); B = p.add("B", "con", [], "E"); C = p.add("C", "con", [], "E")
        F = p.add("F", "con", ["E"], "E")
        t = lambda f, *a: {"f": f, "a": list(a)}
        cmds = []
        p.rsets.append(dict(name="rs0", kind="rules", subs=[]))
        old, young = (A, B) if r.random() < 0.7 else (B, A)
        if k % 2 == 0:
            Q = p.add("Q", "con", ["i64", "E"], "E")
            M = p.add("M", "con", ["E"], "RelM", rel=True)
            p.rules.append(dict(rs="rs0", name="seeq", body=[dict(k="tab", f=Q, a=[V(1), V(2)], o=V(3))], head=[dict(k="ins", t={"f": M, "a": [V(2)]})]))
            nval = r.randrange(3)
            cmds.append(dict(k="ins", t=t(old)))
            if r.random() < 0.5:
                cmds.append(dict(k="ins", t=t(F, t(C))))
            cmds.append(dict(k="ins", t={"f": Q, "a": [{"i": nval}, t(young)]}))
            if r.random() < 0.4:
                cmds.append(dict(k="run", s=dict(k="run", rs="rs0", until=[])))
            cmds.append(dict(k="subsume", f=Q, a=[{"i": nval}, t(young)]))
            cmds.append(dict(k="union", a=t(young), b=t(old)))
            if r.random() < 0.5:
                cmds.append(dict(k="ins", t={"f": Q, "a": [{"i": nval + 1}, t(C)]}))
            cmds.append(dict(k="run", s=dict(k="run", rs="rs0", until=[])))
            for x in (old, young, C):
                cmds.append(sessgen.check_present(p, {"f": M, "a": [t(x)]}))
            cmds.append(dict(k="size", f=M))
            cmds.append(dict(k="size", f=Q))
        else:
            p.csorts.append(dict(name="VecE", kind=1, elems=["E"]))
            fc = p.add("fc", "fn", ["VecE"], "i64", merge=r.choice(["max", "min"]))
            Rc = p.add("Rc", "con", ["VecE"], "RelC", rel=True)
            vec = lambda *xs: {"c": "VecE", "a": list(xs)}
            val = r.randrange(1, 4)
            cmds.append(dict(k="ins", t=t(old)))
            shape = r.choice([(young, young), (young, C), (C, young)])
            cmds.append(dict(k="set", f=fc, a=[vec(*[t(x) for x in shape])], v={"i": val}))
            cmds.append(dict(k="ins", t={"f": Rc, "a": [vec(*[t(x) for x in shape])]}))
            if r.random() < 0.5:
                cmds.append(dict(k="ins", t=t(F, t(young))))
            cmds.append(dict(k="union", a=t(young), b=t(old)))
            canon = [old if x == young else x for x in shape]
            for sh in (canon, list(shape)):
                atoms, nv = [], [0]
                v = flatten(p, {"f": fc, "a": [vec(*[t(x) for x in sh])]}, atoms, nv)
                atoms.append(dict(k="cmp", op="eq", l=v, r={"i": val}))
                cmds.append(dict(k="check", facts=atoms, text="(= (fc %s) %d)" % (sessgen.gterm_text(p, vec(*[t(x) for x in sh])), val)))
                cmds.append(sessgen.check_present(p, {"f": Rc, "a": [vec(*[t(x) for x in sh])]}))
            cmds.append(dict(k="size", f=fc))
            cmds.append(dict(k="size", f=Rc))
        steps = [dict(c={k2: v2 for k2, v2 in c.items() if k2 != "text"}, text=sessgen.cmd_text(p, c)) for c in cmds]
        out.append(dict(id="c11s-%d" % k, mode=dict(PLAIN), prog=p.struct(), active=list(range(1, len(p.rules) + 1)),
                        setup=sessgen.decl_text(p) + [sessgen.rule_text(p, x) for x in p.rules], steps=steps,
                        tables=[fn["name"] for fn in p.funcs]))
    return out


def check(tier):
    return family.check_groups(
        "C11", tier,
        [dict(fam="c11", model_specs=[], profiles=PROFILES, configs=[(PLAIN, None), (TERM, None), (PROOF, None), (REPARSE, None)], nrand=(8, 250)),
         dict(fam="c11s", model_specs=[], profiles=[], configs=[(PLAIN, None), (TERM, None), (PROOF, None), (REPARSE, None)], nrand=(0, 0), extra=scenarios)],
        ["every session is run in four treatments: plain, term encoding, proofs, and `resolve_program` on a term-encoding engine whose printed output is "
         "parsed and run by a plain engine (reserved names allowed); all four traces must be accepted by the same deterministic specification, which fixes "
         "the outcome (ok / error) of every command, every check, every print-size and every extraction cost; in the three encoded treatments the "
         "engine's own tables (views, union-find tables) are not compared row by row",
         "sessions stay in the fragment program_supports_proofs accepts: constructors, relations, functions with min/max merge, rules with "
         "insert/union/set heads, subsume, push/pop, schedules, constructors mixing e-class and base columns, Vec containers of e-classes as keys; "
         "no delete, no function lookups in actions"],
        chunks=10)
