"""C14 -- containers of e-classes stay canonical and keep rules firing."""
from . import family, sess

NAIVE = dict(threads=1, seminaive=False, enc="plain")
PAR = dict(threads=4, seminaive=True, enc="plain")
PROFILES = [
    dict(fns=["min"], nrules=4, nsets=2, rels=1, conts=["vec", "set"], ncmds=16, checks=0.4, sched_depth=1, depth=2, late_rules=0.3),
    dict(fns=["max"], nrules=5, nsets=1, rels=1, conts=["mset", "pair", "vv"], ncmds=16, checks=0.3, sched_depth=2, growth=False, late_rules=0.3),
    dict(fns=[], nrules=5, nsets=2, rels=1, unary=2, conts=["vvv", "sv"], ncmds=18, checks=0.3, sched_depth=1, depth=2, late_rules=0.4, cont_n=[1, 1, 2]),
    # rules that match THROUGH nested contents (mk chains), narrow containers, few constants: the shape in which an
    # in-place rebuild three levels below a row must re-stamp that row
    dict(consts=2, unary=1, binary=0, fns=[], rels=1, nrules=3, nsets=1, conts=["vvv"], cont_rules=1.0, templ=1.0, ncmds=14,
         checks=0.1, depth=1, sched_depth=1, cont_n=[1, 1, 1, 2]),
    dict(consts=2, unary=1, binary=0, fns=["min"], rels=1, nrules=3, nsets=2, conts=["vv", "set"], cont_rules=1.0, templ=1.0, ncmds=14,
         checks=0.1, depth=1, sched_depth=1, cont_n=[1, 1, 2], late_rules=0.3),
]


def scenarios(tier):
    from . import sessgen, core
    return sessgen.container_scenarios(60 if tier == "quick" else 1500, core.seed())


def check(tier):
    return family.check_groups(
        "C14", tier,
        [dict(fam="c14", model_specs=[], profiles=PROFILES, configs=[(family.SEQ, None), (NAIVE, None), (PAR, sess.PAR0)], nrand=(20, 400)),
         dict(fam="c14s", model_specs=[], profiles=[], configs=[(family.SEQ, None), (NAIVE, None), (PAR, sess.PAR0)], nrand=(0, 0), extra=scenarios)],
        ["Vec, Set, MultiSet and Pair over an eq-sort, nested up to three levels (Vec of Vec of Vec, Set of Vec); Map is not generated",
         "containers are values of the specification (their contents, over least-term class names): two containers equal modulo the current "
         "equalities are the same value by construction, rows keyed by them collide and are merged by Close; the engine's in-place rebuild, "
         "dirty-id closure and re-timestamping are bound by validating every command under semi-naive and naive evaluation and under the parallel "
         "container rebuild (cut-offs 0)"])
