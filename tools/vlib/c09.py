"""C09 -- bad input is rejected cleanly: no panic, no partial effect."""
from . import family

PROFILES = [
    dict(fns=["min", "none"], nrules=3, nsets=2, rels=1, ncmds=16, checks=0.1, sched_depth=1, depth=2,
         bad=0.45, pushpop=0.3, late_rules=0.3, late_funcs=1),
    dict(fns=["union"], nrules=3, nsets=1, rels=2, ncmds=16, checks=0.1, sched_depth=1, growth=False, bad=0.5, panic=0.15),
]
ENC_PROFILES = [dict(fns=[], nrules=3, nsets=1, rels=1, ncmds=12, checks=0.2, sched_depth=1, depth=2, bad=0.5, growth=False)]
TERM = dict(threads=1, seminaive=True, enc="term")
PROOF = dict(threads=1, seminaive=True, enc="proof")


def nocmp(tier):
    from . import sessgen, core
    g = sessgen.Gen(core.seed() * 1000 + 77, ENC_PROFILES[0])
    out = []
    for k in range(15 if tier == "quick" else 200):
        s = g.session("c09enc-%d" % k)
        s["cmp"] = 0
        out.append(s)
    return out


def check(tier):
    return family.check_groups(
        "C09", tier,
        [dict(fam="c09", model_specs=[], profiles=PROFILES, configs=[(family.SEQ, None)], nrand=(60, 800)),
         dict(fam="c09enc", model_specs=[], profiles=[], configs=[(TERM, None), (PROOF, None)], nrand=(0, 0), extra=nocmp)],
        ["invalid commands are drawn from a fixed list of mutation kinds (wrong arity / sort, unbound names, unknown ruleset, ungrounded or "
         "ill-typed rules, duplicate and ill-formed declarations, truncated text) inserted at random positions of valid sessions; arbitrary byte strings are not enumerated",
         "each rejected command must return an error value (no panic), leave the logged database equal to the one before, and the follow-up "
         "probes (re-declaring the rejected name correctly) must succeed; in term-encoding and proof mode only outcomes are compared"])
