//! Driver for spec/Conc_Trace.tla (C19): seeded stress scenarios on the real
//! egglog-concurrency primitives.  Every call / return / critical-section entry
//! is appended to ONE totally ordered log (egglog_concurrency::verif::log, which
//! the hook sites inside the crate also write to); the position in the log is
//! the event's ticket.  Events that witness "I am inside the critical section"
//! are logged inside it (after acquire, before release), so an overlap seen in
//! the log is a real overlap.  Nothing is judged here: the log is written out as
//! ndjson and validated by TLC.
use crate::util::*;
use egglog_concurrency::verif;
use egglog_concurrency::{ConcurrentVec, NotificationList, ParallelVecWriter, ReadOptimizedLock, Scope, ThreadPool};
use rand::rngs::StdRng;
use rand::{Rng, SeedableRng};
use serde_json::{Value as J, json};
use std::panic::{AssertUnwindSafe, catch_unwind, resume_unwind};
use std::sync::Mutex;
use std::sync::atomic::{AtomicU64, Ordering};
use std::time::Duration;

// event kinds of the harness (hook sites use 101..108)
const P_SCOPE_OPEN: u32 = 1; // a = scope, b = opener task (0 = main)
const P_SPAWN: u32 = 2; // a = task, b = scope
const P_START: u32 = 3; // a = task
const P_END: u32 = 4; // a = task, b = panicked
const P_ROOT_END: u32 = 5; // a = scope, b = panicked
const P_SCOPE_RET: u32 = 6; // a = scope, b = unwound with a panic
const P_VID: u32 = 7; // a = scope, b = hook id of its ScopeState
const L_RIN: u32 = 20;
const L_ROUT: u32 = 21; // a = side-table index of [w1, w2]
const L_WIN: u32 = 22;
const L_WOUT: u32 = 23; // a = value written
const V_PUSH_CALL: u32 = 30; // a = value
const V_PUSH_RET: u32 = 31; // a = value, b = index
const V_READ_CALL: u32 = 32;
const V_READ_RET: u32 = 33; // a = side-table index of the values read
const W_WRITE_RET: u32 = 40; // a = start, b = side-table index of the items
const W_READ: u32 = 41; // a = index, b = value read (prefix or own completed range)
const N_CALL: u32 = 50; // a = id
const N_RET: u32 = 51; // a = id
const N_RESET: u32 = 52; // a = side-table index of returned ids

static SIDE: Mutex<Vec<Vec<u64>>> = Mutex::new(Vec::new());
fn side(v: Vec<u64>) -> u64 {
    let mut g = SIDE.lock().unwrap();
    g.push(v);
    (g.len() - 1) as u64
}

fn spin(n: u64) {
    for _ in 0..n {
        std::hint::spin_loop();
    }
}

// ------------------------------------------------------------------ thread pool
#[derive(Debug)]
enum Op {
    Spawn(Body),
    Nested(Body),
    Work(u64),
    Panic,
}
#[derive(Debug)]
struct Body {
    ops: Vec<Op>,
}

struct Gen {
    rng: StdRng,
    tasks_left: i32,
    scopes_left: i32,
    panics: bool,
}

impl Gen {
    fn body(&mut self, depth: u32) -> Body {
        let mut ops = vec![];
        let n = if depth == 0 { self.rng.random_range(2..7) } else { self.rng.random_range(0..5) };
        for i in 0..n {
            let r = if depth == 0 && i == 0 { 0 } else { self.rng.random_range(0..100) };
            if r < 45 && self.tasks_left > 0 {
                self.tasks_left -= 1;
                let b = if depth < 4 { self.body(depth + 1) } else { Body { ops: vec![] } };
                ops.push(Op::Spawn(b));
            } else if r < 65 && self.scopes_left > 0 && depth < 4 {
                self.scopes_left -= 1;
                ops.push(Op::Nested(self.body(depth + 1)));
            } else if r < 70 && self.panics {
                ops.push(Op::Panic);
                break;
            } else {
                ops.push(Op::Work(self.rng.random_range(0..3000)));
            }
        }
        Body { ops }
    }
}

static NEXT_TASK: AtomicU64 = AtomicU64::new(0);
static NEXT_SCOPE: AtomicU64 = AtomicU64::new(0);

/// runs the operations of one callback; `me` = task id of the callback (0 = main)
fn run_body<'s>(scope: &Scope<'s>, sid: u64, me: u64, body: &'s Body) {
    for op in &body.ops {
        match op {
            Op::Work(n) => spin(*n),
            Op::Panic => resume_unwind(Box::new("seeded panic")),
            Op::Spawn(b) => {
                let t = NEXT_TASK.fetch_add(1, Ordering::SeqCst) + 1;
                verif::log(P_SPAWN, t, sid);
                scope.spawn(move |sc| {
                    verif::log(P_START, t, 0);
                    let r = catch_unwind(AssertUnwindSafe(|| run_body(sc, sid, t, b)));
                    verif::log(P_END, t, r.is_err() as u64);
                    if let Err(p) = r {
                        resume_unwind(p);
                    }
                });
            }
            Op::Nested(b) => run_scope(me, b, None),
        }
    }
}

/// opens a scope (through `pool` for the outermost one, the free function otherwise)
fn run_scope<'a>(opener: u64, body: &'a Body, pool: Option<&ThreadPool>) {
    let sid = NEXT_SCOPE.fetch_add(1, Ordering::SeqCst) + 1;
    verif::log(P_SCOPE_OPEN, sid, opener);
    let root = |sc: &Scope<'a>| {
        verif::log(P_VID, sid, verif::last_id());
        let r = catch_unwind(AssertUnwindSafe(|| run_body(sc, sid, opener, body)));
        verif::log(P_ROOT_END, sid, r.is_err() as u64);
        if let Err(p) = r {
            resume_unwind(p);
        }
    };
    let r = catch_unwind(AssertUnwindSafe(|| match pool {
        Some(p) => p.scope(root),
        None => egglog_concurrency::scope(root),
    }));
    verif::log(P_SCOPE_RET, sid, r.is_err() as u64);
    if let Err(p) = r {
        resume_unwind(p);
    }
}

fn pool_scenario(seed: u64, k: u64) -> J {
    let mut rng = StdRng::seed_from_u64(seed.wrapping_mul(7919).wrapping_add(k));
    let threads = *[1usize, 1, 2, 2, 3, 4, 8, 16].get(rng.random_range(0..8)).unwrap();
    let panics = rng.random_range(0..4) == 0;
    let mut g = Gen { rng, tasks_left: 12, scopes_left: 4, panics };
    let body = g.body(0);
    NEXT_TASK.store(0, Ordering::SeqCst);
    NEXT_SCOPE.store(0, Ordering::SeqCst);
    let pool = ThreadPool::new(threads);
    let _ = catch_unwind(AssertUnwindSafe(|| run_scope(0, &body, Some(&pool))));
    drop(pool); // joins the workers: afterwards the log is complete
    json!({"e": "p_begin", "threads": threads, "panics": panics as u8})
}

// ------------------------------------------------------------------ read-optimised lock
fn rolock_scenario(seed: u64, k: u64) -> J {
    let mut rng = StdRng::seed_from_u64(seed.wrapping_mul(104729).wrapping_add(k));
    let nthreads = rng.random_range(2..6usize);
    let nops = rng.random_range(2..8usize);
    let wperc = *[10u32, 30, 50, 90].get(rng.random_range(0..4)).unwrap();
    let lock = ReadOptimizedLock::new((0u64, 0u64));
    let next = AtomicU64::new(0);
    std::thread::scope(|s| {
        for th in 0..nthreads {
            let lock = &lock;
            let next = &next;
            let mut r = StdRng::seed_from_u64(seed ^ (k << 8) ^ th as u64);
            s.spawn(move || {
                for _ in 0..nops {
                    if r.random_range(0..100) < wperc {
                        let mut w = lock.lock();
                        verif::log(L_WIN, 0, 0);
                        let v = next.fetch_add(1, Ordering::SeqCst) + 1;
                        unsafe { std::ptr::write_volatile(&mut w.0, v) };
                        spin(r.random_range(0..400));
                        unsafe { std::ptr::write_volatile(&mut w.1, v) };
                        verif::log(L_WOUT, v, 0);
                        drop(w);
                    } else {
                        let g = lock.read();
                        verif::log(L_RIN, 0, 0);
                        let a = unsafe { std::ptr::read_volatile(&g.0) };
                        spin(r.random_range(0..400));
                        let b = unsafe { std::ptr::read_volatile(&g.1) };
                        verif::log(L_ROUT, side(vec![a, b]), 0);
                        drop(g);
                    }
                    spin(r.random_range(0..300));
                }
            });
        }
    });
    json!({"e": "l_begin", "threads": nthreads})
}

// ------------------------------------------------------------------ concurrent vector
fn cvec_scenario(seed: u64, k: u64) -> (J, J) {
    let mut rng = StdRng::seed_from_u64(seed.wrapping_mul(15485863).wrapping_add(k));
    let nthreads = rng.random_range(2..6usize);
    let nops = rng.random_range(2..9usize);
    let cap = *[1usize, 1, 2, 4].get(rng.random_range(0..4)).unwrap();
    let cv: ConcurrentVec<u64> = ConcurrentVec::with_capacity(cap);
    std::thread::scope(|s| {
        for th in 0..nthreads {
            let cv = &cv;
            let mut r = StdRng::seed_from_u64(seed ^ (k << 8) ^ (th as u64) ^ 0x55);
            s.spawn(move || {
                for i in 0..nops {
                    if r.random_range(0..100) < 60 {
                        let v = ((th as u64 + 1) << 16) | (i as u64 + 1);
                        verif::log(V_PUSH_CALL, v, 0);
                        let idx = cv.push(v);
                        verif::log(V_PUSH_RET, v, idx as u64);
                    } else {
                        verif::log(V_READ_CALL, 0, 0);
                        let vals: Vec<u64> = cv.read().to_vec();
                        verif::log(V_READ_RET, side(vals), 0);
                    }
                    spin(r.random_range(0..300));
                }
            });
        }
    });
    let fin: Vec<u64> = cv.read().to_vec();
    (json!({"e": "v_begin", "threads": nthreads, "cap": cap}), json!({"e": "v_end", "final": fin}))
}

// ------------------------------------------------------------------ parallel writer
struct Slow {
    items: Vec<u64>,
    i: usize,
    seed: u64,
}
impl Iterator for Slow {
    type Item = u64;
    fn next(&mut self) -> Option<u64> {
        if self.i >= self.items.len() {
            return None;
        }
        self.seed ^= self.seed << 13;
        self.seed ^= self.seed >> 7;
        self.seed ^= self.seed << 17;
        match self.seed % 4 {
            0 => std::thread::yield_now(),
            1 => spin(self.seed % 3000),
            2 => std::thread::sleep(Duration::from_micros(self.seed % 150)),
            _ => {}
        }
        self.i += 1;
        Some(self.items[self.i - 1])
    }
    fn size_hint(&self) -> (usize, Option<usize>) {
        let n = self.items.len() - self.i;
        (n, Some(n))
    }
}
impl ExactSizeIterator for Slow {}

fn pwriter_scenario(seed: u64, k: u64) -> (J, J) {
    let mut rng = StdRng::seed_from_u64(seed.wrapping_mul(32452843).wrapping_add(k));
    let nthreads = rng.random_range(2..6usize);
    let nops = rng.random_range(1..6usize);
    let l0 = rng.random_range(0..4usize);
    let mut init: Vec<u64> = Vec::with_capacity(l0 + rng.random_range(0..3usize));
    for i in 0..l0 {
        init.push(1000 + i as u64);
    }
    let begin = json!({"e": "w_begin", "threads": nthreads, "init": init.clone()});
    let pw = ParallelVecWriter::new(init);
    std::thread::scope(|s| {
        for th in 0..nthreads {
            let pw = &pw;
            let mut r = StdRng::seed_from_u64(seed ^ (k << 8) ^ (th as u64) ^ 0x77);
            s.spawn(move || {
                for i in 0..nops {
                    let len = match r.random_range(0..8) { 0 => r.random_range(20..200usize), 1 | 2 => r.random_range(0..14usize), _ => r.random_range(0..5usize) };
                    let items: Vec<u64> = (0..len).map(|j| ((th as u64 + 1) << 16) | ((i as u64) << 4) | j as u64).collect();
                    let start = match r.random_range(0..3) {
                        0 => pw.write_contents(items.clone().into_iter()),
                        // an iterator that takes its time: other writers reserve (and grow) while this write is in flight
                        1 => pw.write_contents(Slow { items: items.clone(), i: 0, seed: r.random_range(1..u64::MAX) }),
                        _ => pw.write_slice(&items),
                    };
                    verif::log(W_WRITE_RET, start as u64, side(items.clone()));
                    // read back a cell of the completed write and a cell of the initial prefix
                    if len > 0 {
                        let j = r.random_range(0..len);
                        let acc = pw.unsafe_read_access();
                        let v = unsafe { *acc.get_unchecked(start + j) };
                        verif::log(W_READ, (start + j) as u64, v);
                    }
                    if l0 > 0 {
                        let j = r.random_range(0..l0);
                        let v = pw.with_index(j, |x| *x);
                        verif::log(W_READ, j as u64, v);
                    }
                    spin(r.random_range(0..300));
                }
            });
        }
    });
    let fin = pw.finish();
    (begin, json!({"e": "w_end", "final": fin}))
}

// ------------------------------------------------------------------ notification list
fn notif_scenario(seed: u64, k: u64) -> J {
    let mut rng = StdRng::seed_from_u64(seed.wrapping_mul(49979687).wrapping_add(k));
    let nthreads = rng.random_range(2..6usize);
    let rounds = rng.random_range(1..4usize);
    let nl: NotificationList<usize> = NotificationList::default();
    for _ in 0..rounds {
        std::thread::scope(|s| {
            for th in 0..nthreads {
                let nl = nl.clone();
                let mut r = StdRng::seed_from_u64(seed ^ (k << 8) ^ (th as u64) ^ rng.random_range(0..1 << 20));
                s.spawn(move || {
                    for _ in 0..r.random_range(1..6) {
                        let id = r.random_range(0..6usize);
                        verif::log(N_CALL, id as u64, 0);
                        nl.notify(id);
                        verif::log(N_RET, id as u64, 0);
                    }
                });
            }
        });
        // no notify is in flight here (documented precondition of reset)
        let ids: Vec<u64> = nl.reset().iter().map(|x| *x as u64).collect();
        verif::log(N_RESET, side(ids), 0);
    }
    json!({"e": "n_begin", "threads": nthreads})
}

fn unpack(c: u64) -> J {
    json!([(c >> 32) as u32, (c & 0xffff_ffff) as u32])
}

fn event_json(ev: &verif::Event, side: &[Vec<u64>]) -> J {
    let t = ev.thread;
    let (a, b) = (ev.a, ev.b);
    match ev.kind {
        P_SCOPE_OPEN => json!({"e": "p_scope_open", "th": t, "s": a, "by": b}),
        P_SPAWN => json!({"e": "p_spawn", "th": t, "t": a, "s": b}),
        P_START => json!({"e": "p_start", "th": t, "t": a}),
        P_END => json!({"e": "p_end", "th": t, "t": a, "panic": b}),
        P_ROOT_END => json!({"e": "p_root_end", "th": t, "s": a, "panic": b}),
        P_SCOPE_RET => json!({"e": "p_scope_ret", "th": t, "s": a, "panic": b}),
        P_VID => json!({"e": "p_vid", "th": t, "s": a, "vid": b}),
        101 => json!({"e": "h_op", "th": t, "op": "e", "vid": a, "prev": unpack(b)}),
        102 => json!({"e": "h_op", "th": t, "op": "c", "vid": a, "prev": unpack(b)}),
        103 => json!({"e": "h_done", "th": t, "vid": a}),
        104 => json!({"e": "h_pop", "th": t, "how": "idle"}),
        105 => json!({"e": "h_pop", "th": t, "how": "help"}),
        107 => json!({"e": "h_scope_new", "th": t, "vid": a}),
        108 => json!({"e": "h_wait", "th": t, "mode": a}),
        L_RIN => json!({"e": "l_rin", "th": t}),
        L_ROUT => json!({"e": "l_rout", "th": t, "w": side[a as usize]}),
        L_WIN => json!({"e": "l_win", "th": t}),
        L_WOUT => json!({"e": "l_wout", "th": t, "v": a}),
        V_PUSH_CALL => json!({"e": "v_push_call", "th": t, "v": a}),
        V_PUSH_RET => json!({"e": "v_push_ret", "th": t, "v": a, "idx": b}),
        V_READ_CALL => json!({"e": "v_read_call", "th": t}),
        V_READ_RET => json!({"e": "v_read_ret", "th": t, "vals": side[a as usize]}),
        W_WRITE_RET => json!({"e": "w_write_ret", "th": t, "start": a, "items": side[b as usize]}),
        W_READ => json!({"e": "w_read", "th": t, "idx": a, "v": b}),
        N_CALL => json!({"e": "n_call", "th": t, "id": a}),
        N_RET => json!({"e": "n_ret", "th": t, "id": a}),
        N_RESET => json!({"e": "n_reset", "th": t, "ids": side[a as usize]}),
        k => json!({"e": "unknown", "kind": k}),
    }
}

pub fn main(args: &[String]) -> Result<(), String> {
    std::panic::set_hook(Box::new(|_| {}));
    let kind = arg(args, "--kind").ok_or("--kind")?.to_string();
    let seed = arg_usize(args, "--seed", 1) as u64;
    let n = arg_usize(args, "--n", 10) as u64;
    let perturb = arg_usize(args, "--perturb", 300) as u64;
    let outp = arg(args, "--out").ok_or("--out")?.to_string();
    let mut out = TraceOut::create(&outp)?;
    verif::set_logging(true);
    let mut points = vec![0u64; verif::NPOINTS];
    let mut timed_out = false;
    for k in 0..n {
        // a third of the scenarios run unperturbed, the rest with the seeded perturbation
        verif::set_perturbation(seed * 1000 + k, if k % 3 == 0 { 0 } else { perturb });
        // every third scenario: the first thread that reaches one chosen schedule point is held there for a
        // few milliseconds while everybody else proceeds (a directed version of the perturbation)
        let gates: &[usize] = match kind.as_str() {
            "pool" => &[1, 2, 3, 4, 5, 6],
            "rolock" => &[10, 11, 12, 13, 14, 15],
            "cvec" => &[16, 17, 18, 12, 13],
            "pwriter" => &[19, 20, 21, 20, 12],
            _ => &[17, 18, 12],
        };
        let gate = if k % 3 == 2 { Some(gates[((seed + k / 3) as usize) % gates.len()]) } else { None };
        let hold_ms = 1 + (seed * 31 + k * 7) % 25;
        if let Some(g) = gate {
            verif::arm_gate(g);
            std::thread::spawn(move || {
                std::thread::sleep(Duration::from_millis(hold_ms));
                verif::release_gate(g);
            });
        }
        let kind2 = kind.clone();
        let (tx, rx) = std::sync::mpsc::channel();
        let runner = std::thread::spawn(move || {
            let r: (J, Option<J>) = match kind2.as_str() {
                "pool" => (pool_scenario(seed, k), Some(json!({"e": "p_quiesce"}))),
                "rolock" => (rolock_scenario(seed, k), None),
                "cvec" => {
                    let (b, e) = cvec_scenario(seed, k);
                    (b, Some(e))
                }
                "pwriter" => {
                    let (b, e) = pwriter_scenario(seed, k);
                    (b, Some(e))
                }
                _ => (notif_scenario(seed, k), None),
            };
            let _ = tx.send(r);
        });
        let res = rx.recv_timeout(Duration::from_secs(90));
        let log = verif::drain_log();
        let sd = std::mem::take(&mut *SIDE.lock().unwrap());
        match res {
            Ok((mut begin, end)) => {
                let _ = runner.join();
                begin["k"] = json!(k);
                out.emit(begin);
                for ev in &log {
                    out.emit(event_json(ev, &sd));
                }
                if let Some(e) = end {
                    out.emit(e);
                }
            }
            Err(std::sync::mpsc::RecvTimeoutError::Disconnected) => {
                // the scenario thread panicked (an assertion of the code under test, or a panic propagated out of a scoped thread)
                let b = match kind.as_str() { "pool" => "p_begin", "rolock" => "l_begin", "cvec" => "v_begin", "pwriter" => "w_begin", _ => "n_begin" };
                out.emit(json!({"e": b, "k": k, "threads": 0}));
                for ev in &log {
                    out.emit(event_json(ev, &sd));
                }
                let msg = match runner.join() {
                    Err(p) => p.downcast_ref::<String>().cloned().or_else(|| p.downcast_ref::<&str>().map(|s| s.to_string())).unwrap_or_default(),
                    Ok(()) => String::new(),
                };
                out.emit(json!({"e": "crash", "k": k, "msg": msg}));
            }
            Err(_) => {
                // watchdog: the scenario did not finish (deadlock / lost wake-up): record what was seen
                let b = match kind.as_str() { "pool" => "p_begin", "rolock" => "l_begin", "cvec" => "v_begin", "pwriter" => "w_begin", _ => "n_begin" };
                out.emit(json!({"e": b, "k": k, "threads": 0}));
                for ev in &log {
                    out.emit(event_json(ev, &sd));
                }
                out.emit(json!({"e": "timeout", "k": k}));
                timed_out = true;
            }
        }
        if let Some(g) = gate {
            verif::release_gate(g);
        }
        for (i, c) in verif::take_counts().iter().enumerate() {
            points[i] += c;
        }
        if timed_out {
            break;
        }
    }
    let nev = out.finish();
    println!("{}", json!({"scenarios": n, "events": nev, "points": points, "timed_out": timed_out}));
    if timed_out {
        // the stuck threads cannot be joined
        std::process::exit(0);
    }
    Ok(())
}
