//! Driver for spec/EggAbs_Trace.tla: runs sessions (declarations + commands)
//! against a real `egglog::EGraph` and records, after every command, the RAW
//! observable state: rows with raw e-class ids, the canonical-id map, container
//! contents.  Nothing is interpreted here.
use crate::util::*;
use egglog::ArcSort;
use egglog::sort::{MapContainer, MultiSetContainer, PairContainer, SetContainer, VecContainer};
use egglog::{CommandOutput, EGraph, Value};
use egglog_numeric_id::NumericId;
use serde_json::{Value as J, json};
use std::collections::BTreeMap;
use std::panic::{AssertUnwindSafe, catch_unwind};

pub struct Dumper<'a> {
    pub eg: &'a EGraph,
    pub canon: BTreeMap<u32, u32>,
    /// container id -> (kind, raw element values), for every container reachable from a dumped table
    pub cont: BTreeMap<u32, (u8, Vec<J>)>,
}

impl<'a> Dumper<'a> {
    pub fn new(eg: &'a EGraph) -> Self {
        Dumper { eg, canon: BTreeMap::new(), cont: BTreeMap::new() }
    }

    /// kind (1 Vec, 2 Set, 3 MultiSet, 4 Pair, 5 Map) and raw elements of a container value
    fn container(&self, v: Value) -> Option<(u8, Vec<Value>)> {
        use egglog::ContainerValue;
        if let Some(c) = self.eg.value_to_container::<VecContainer>(v) {
            return Some((1, c.iter().collect()));
        }
        if let Some(c) = self.eg.value_to_container::<SetContainer>(v) {
            return Some((2, c.iter().collect()));
        }
        if let Some(c) = self.eg.value_to_container::<MultiSetContainer>(v) {
            return Some((3, c.iter().collect()));
        }
        if let Some(c) = self.eg.value_to_container::<PairContainer>(v) {
            return Some((4, c.iter().collect()));
        }
        if let Some(c) = self.eg.value_to_container::<MapContainer>(v) {
            return Some((5, c.iter().collect()));
        }
        None
    }

    /// One raw value as [tag, payload]; eq-sort ids are recorded in the canonical-id map.
    pub fn val(&mut self, sort: &ArcSort, v: Value) -> Result<J, String> {
        let name = sort.name();
        if sort.is_eq_sort() {
            let cid = self.eg.value_to_class_id(sort, v).to_string();
            let bits = cid.rsplit_once('-').ok_or("class id")?.1;
            let c: u32 = bits.parse().map_err(|_| "class id bits")?;
            self.canon.insert(v.rep(), c);
            return Ok(json!([1, v.rep()]));
        }
        match name {
            "i64" => Ok(json!([0, self.eg.value_to_base::<i64>(v)])),
            "bool" => Ok(json!([0, if self.eg.value_to_base::<bool>(v) { 1 } else { 0 }])),
            "Unit" => Ok(json!([0, 0])),
            _ => {
                if sort.is_container_sort() {
                    let inner = sort.inner_sorts();
                    if inner.len() == 1 && inner[0].name() == "i64" {
                        if let Some(c) = self.eg.value_to_container::<SetContainer>(v) {
                            let mut xs: Vec<i64> = c.data.iter().map(|x| self.eg.value_to_base::<i64>(*x)).collect();
                            xs.sort();
                            return Ok(json!([2, xs]));
                        }
                    }
                    // a container of e-classes (or of containers): raw id + raw contents, recursively
                    let Some((kind, elems)) = self.container(v) else {
                        return Err(format!("container value of sort {name} is not readable"));
                    };
                    if !self.cont.contains_key(&v.rep()) {
                        let mut ej = vec![];
                        for (i, e) in elems.iter().enumerate() {
                            ej.push(self.val(&inner[i % inner.len()], *e)?);
                        }
                        self.cont.insert(v.rep(), (kind, ej));
                    }
                    return Ok(json!([3, v.rep()]));
                }
                Err(format!("unsupported sort {name}"))
            }
        }
    }

    pub fn table(&mut self, name: &str) -> Result<J, String> {
        let Some(func) = self.eg.get_function(name) else {
            return Ok(json!([]));
        };
        let ft = func.func_type().clone();
        let mut rows: Vec<(Vec<Value>, Value, bool)> = vec![];
        let is_con = matches!(ft.subtype, egglog::ast::FunctionSubtype::Constructor);
        if is_con {
            self.eg
                .constructor_enodes(name, |e| rows.push((e.children.to_vec(), e.eclass, e.subsumed)))
                .map_err(|e| e.to_string())?;
        } else {
            self.eg
                .function_entries(name, |e| rows.push((e.inputs.to_vec(), e.output, e.subsumed)))
                .map_err(|e| e.to_string())?;
        }
        let mut out = vec![];
        for (a, o, s) in rows {
            let mut aj = vec![];
            for (i, v) in a.iter().enumerate() {
                aj.push(self.val(&ft.input[i], *v)?);
            }
            let oj = self.val(&ft.output, o)?;
            out.push(json!({"a": aj, "o": oj, "s": if s { 1 } else { 0 }}));
        }
        Ok(J::Array(out))
    }
}

pub fn dump(eg: &EGraph, tables: &[String]) -> Result<(J, J, J), String> {
    let mut d = Dumper::new(eg);
    let mut tabs = vec![];
    for t in tables {
        tabs.push(d.table(t)?);
    }
    let canon: Vec<J> = d.canon.iter().map(|(k, v)| json!([k, v])).collect();
    let cont: Vec<J> = d.cont.iter().map(|(k, (kind, e))| json!({"id": k, "k": kind, "e": e})).collect();
    Ok((J::Array(tabs), J::Array(canon), J::Array(cont)))
}

pub fn new_egraph(mode: &J) -> EGraph {
    let threads = mode["threads"].as_u64().unwrap_or(1) as usize;
    let enc = mode["enc"].as_str().unwrap_or("plain");
    let mut eg = match enc {
        "term" => EGraph::new_with_term_encoding(),
        "proof" => EGraph::new_with_proofs(),
        _ => EGraph::default(),
    };
    eg.set_num_threads(threads);
    if let Some(b) = mode["seminaive"].as_bool() {
        eg.seminaive = b;
    }
    if let Some(b) = mode["nodecomp"].as_bool() {
        eg.no_decomp = b;
    }
    eg
}

pub const HUGE: u64 = 100_000_000;

/// structural copy of a term of the TermDag (no interpretation)
pub fn term_json(dag: &egglog::TermDag, t: egglog::TermId) -> J {
    match dag.get(t) {
        egglog::Term::Lit(egglog::ast::Literal::Int(i)) => json!({"i": i}),
        egglog::Term::Lit(egglog::ast::Literal::Bool(b)) => json!({"i": if *b { 1 } else { 0 }}),
        egglog::Term::Lit(l) => json!({"n": format!("lit:{l}"), "a": []}),
        egglog::Term::Var(v) => json!({"n": format!("var:{v}"), "a": []}),
        egglog::Term::App(f, ch) => {
            let a: Vec<J> = ch.iter().map(|c| term_json(dag, *c)).collect();
            json!({"n": f, "a": a})
        }
    }
}

pub fn outputs_json(outs: &[CommandOutput]) -> (Vec<J>, Option<bool>) {
    let mut v = vec![];
    let mut upd = None;
    for o in outs {
        match o {
            CommandOutput::RunSchedule(r) => {
                upd = Some(upd.unwrap_or(false) | r.updated);
                v.push(json!({"k": "run", "updated": r.updated, "can_stop": r.can_stop}));
            }
            CommandOutput::ExtractBest(dag, cost, t) => {
                // TLC integers are 32-bit: a cost a * i64::MAX + b is logged as a * HUGE + b (Extract.tla: Huge, Cap)
                let imax = i64::MAX as u64;
                let costn = (*cost / imax) * HUGE + (*cost % imax).min(HUGE - 1);
                v.push(json!({"k": "extract", "cost": cost.to_string(), "costn": costn, "text": dag.to_string(*t),
                              "term": term_json(dag, *t)}));
            }
            CommandOutput::ExtractVariants(dag, ts) => {
                let xs: Vec<J> = ts.iter().map(|t| term_json(dag, *t)).collect();
                let tx: Vec<String> = ts.iter().map(|t| dag.to_string(*t)).collect();
                v.push(json!({"k": "variants", "terms": xs, "texts": tx}));
            }
            CommandOutput::PrintFunctionSize(n) => v.push(json!({"k": "size", "n": n})),
            CommandOutput::PrintAllFunctionsSize(xs) => v.push(json!({"k": "sizes", "n": xs})),
            other => v.push(json!({"k": "other", "text": other.to_string()})),
        }
    }
    (v, upd)
}

/// Runs one command text under catch_unwind: ("ok"|"err"|"panic", outputs, message)
pub fn run_text(eg: &mut EGraph, text: &str) -> (&'static str, Vec<CommandOutput>, String) {
    let r = catch_unwind(AssertUnwindSafe(|| eg.parse_and_run_program(None, text)));
    match r {
        Ok(Ok(outs)) => ("ok", outs, String::new()),
        Ok(Err(e)) => ("err", vec![], e.to_string()),
        Err(p) => {
            let msg = if let Some(s) = p.downcast_ref::<String>() {
                s.clone()
            } else if let Some(s) = p.downcast_ref::<&str>() {
                s.to_string()
            } else {
                "panic".to_string()
            };
            ("panic", vec![], msg)
        }
    }
}

fn strings(j: &J) -> Vec<String> {
    j.as_array().map(|a| a.iter().map(|x| x.as_str().unwrap_or("").to_string()).collect()).unwrap_or_default()
}

pub fn run_session(sess: &J, out: &mut TraceOut) -> Result<(), String> {
    let mut slots: Vec<EGraph> = vec![new_egraph(&sess["mode"])];
    let tables = strings(&sess["tables"]);
    for s in strings(&sess["setup"]) {
        let (res, _, msg) = run_text(&mut slots[0], &s);
        if res != "ok" {
            return Err(format!("session {}: setup `{}` failed: {} {}", sess["id"], s, res, msg));
        }
    }
    let mut decl = json!({"e": "decl", "id": sess["id"], "mode": sess["mode"], "prog": sess["prog"], "active": sess["active"]});
    for k in ["declared", "cmp"] {
        if !sess[k].is_null() {
            decl[k] = sess[k].clone();
        }
    }
    out.emit(decl);
    let steps = sess["steps"].as_array().ok_or("steps")?;
    for (i, st) in steps.iter().enumerate() {
        if st["op"].as_str() == Some("clone") {
            // EGraph::clone(): the copy becomes slot 1 (replacing an earlier copy)
            let from = st["from"].as_u64().unwrap_or(0) as usize;
            let copy = slots[from].clone();
            if slots.len() > 1 - from.min(1) && slots.len() == 2 {
                slots[1 - from] = copy;
            } else {
                slots.push(copy);
            }
            out.emit(json!({"e": "clone", "i": i}));
            continue;
        }
        let slot = st["slot"].as_u64().unwrap_or(0) as usize;
        let text = st["text"].as_str().ok_or("text")?;
        let (res, outs, msg) = run_text(&mut slots[slot], text);
        if !st["raw"].is_null() {
            // large-database sessions: outcome always, raw dump only where asked for
            let mut ev = json!({"e": "rawcmd", "i": i, "c": st["c"], "text": text, "res": res, "msg": msg});
            if !st["expect"].is_null() {
                ev["expect"] = st["expect"].clone();
            }
            if st["raw"].as_str() == Some("dump") {
                match catch_unwind(AssertUnwindSafe(|| dump(&slots[slot], &tables))) {
                    Ok(Ok((tabs, canon, cont))) => {
                        ev["tabs"] = tabs;
                        ev["canon"] = canon;
                        ev["cont"] = cont;
                    }
                    _ => {
                        out.emit(json!({"e": "abort", "i": i, "c": st["c"], "text": text, "res": res, "slot": slot, "why": "dump failed"}));
                        return Ok(());
                    }
                }
            }
            out.emit(ev);
            continue;
        }
        let d = catch_unwind(AssertUnwindSafe(|| dump(&slots[slot], &tables)));
        let (tabs, canon, cont) = match d {
            Ok(Ok(x)) => x,
            Ok(Err(e)) => {
                // the read API refused to show a declared table: this is an observation, not a harness fault
                out.emit(json!({"e": "abort", "i": i, "c": st["c"], "text": text, "res": res, "slot": slot, "why": format!("read API error: {e}")}));
                return Ok(());
            }
            Err(_) => {
                out.emit(json!({"e": "abort", "i": i, "c": st["c"], "text": text, "res": res, "slot": slot, "why": "dump panicked"}));
                return Ok(());
            }
        };
        // a database that has outgrown what the trace specification re-computes in reasonable time ends
        // the session here (the event is not emitted; the prefix recorded so far is still validated)
        let nrows: usize = tabs.as_array().map(|t| t.iter().map(|x| x.as_array().map(|a| a.len()).unwrap_or(0)).sum()).unwrap_or(0);
        if nrows > sess["maxrows"].as_u64().unwrap_or(150) as usize {
            out.truncated += 1;
            return Ok(());
        }
        let (oj, upd) = outputs_json(&outs);
        let mut ev = json!({"e": "cmd", "i": i, "c": st["c"], "text": text, "res": res, "msg": msg,
                            "tabs": tabs, "canon": canon, "cont": cont, "outs": oj});
        if slots.len() > 1 {
            ev["slot"] = json!(slot);
            if let Ok(Ok((ot, oc, ocont))) = catch_unwind(AssertUnwindSafe(|| dump(&slots[1 - slot], &tables))) {
                ev["otabs"] = ot;
                ev["ocanon"] = oc;
                ev["ocont"] = ocont;
            }
        }
        if let Some(u) = upd {
            ev["upd"] = json!(if u { 1 } else { 0 });
        }
        out.emit(ev);
    }
    Ok(())
}

pub fn main(args: &[String]) -> Result<(), String> {
    std::panic::set_hook(Box::new(|_| {}));
    let inp = arg(args, "--in").ok_or("--in")?;
    let outp = arg(args, "--out").ok_or("--out")?;
    let mut out = TraceOut::create(outp)?;
    let mut n = 0;
    for sess in read_lines(inp)? {
        run_session(&sess, &mut out)?;
        n += 1;
    }
    let tr = out.truncated;
    let ev = out.finish();
    println!("{{\"sessions\": {n}, \"events\": {ev}, \"truncated\": {tr}}}");
    Ok(())
}
