//! Driver for spec/EggAbs_Trace.tla: runs sessions (declarations + commands)
//! against a real `egglog::EGraph` and records, after every command, the RAW
//! observable state: rows with raw e-class ids, the canonical-id map, container
//! contents.  Nothing is interpreted here.
use crate::util::*;
use egglog::ArcSort;
use egglog::sort::{MapContainer, MultiSetContainer, PairContainer, SetContainer, VecContainer};
use egglog::{CommandOutput, EGraph, Value};
use egglog_numeric_id::NumericId;
use serde_json::{Value as J, json};
use std::collections::BTreeMap;
use std::panic::{AssertUnwindSafe, catch_unwind};

pub struct Dumper<'a> {
    pub eg: &'a EGraph,
    pub canon: BTreeMap<u32, u32>,
    /// container id -> (kind, raw element values), for every container reachable from a dumped table
    pub cont: BTreeMap<u32, (u8, Vec<J>)>,
}

impl<'a> Dumper<'a> {
    pub fn new(eg: &'a EGraph) -> Self {
        Dumper { eg, canon: BTreeMap::new(), cont: BTreeMap::new() }
    }

    /// kind (1 Vec, 2 Set, 3 MultiSet, 4 Pair, 5 Map) and raw elements of a container value
    fn container(&self, v: Value) -> Option<(u8, Vec<Value>)> {
        use egglog::ContainerValue;
        if let Some(c) = self.eg.value_to_container::<VecContainer>(v) {
            return Some((1, c.iter().collect()));
        }
        if let Some(c) = self.eg.value_to_container::<SetContainer>(v) {
            return Some((2, c.iter().collect()));
        }
        if let Some(c) = self.eg.value_to_container::<MultiSetContainer>(v) {
            return Some((3, c.iter().collect()));
        }
        if let Some(c) = self.eg.value_to_container::<PairContainer>(v) {
            return Some((4, c.iter().collect()));
        }
        if let Some(c) = self.eg.value_to_container::<MapContainer>(v) {
            return Some((5, c.iter().collect()));
        }
        None
    }

    /// One raw value as [tag, payload]; eq-sort ids are recorded in the canonical-id map.
    pub fn val(&mut self, sort: &ArcSort, v: Value) -> Result<J, String> {
        let name = sort.name();
        if sort.is_eq_sort() {
            let cid = self.eg.value_to_class_id(sort, v).to_string();
            let bits = cid.rsplit_once('-').ok_or("class id")?.1;
            let c: u32 = bits.parse().map_err(|_| "class id bits")?;
            self.canon.insert(v.rep(), c);
            return Ok(json!([1, v.rep()]));
        }
        match name {
            "i64" => Ok(json!([0, self.eg.value_to_base::<i64>(v)])),
            "bool" => Ok(json!([0, if self.eg.value_to_base::<bool>(v) { 1 } else { 0 }])),
            "Unit" => Ok(json!([0, 0])),
            _ => {
                if sort.is_container_sort() {
                    let inner = sort.inner_sorts();
                    if inner.len() == 1 && inner[0].name() == "i64" {
                        if let Some(c) = self.eg.value_to_container::<SetContainer>(v) {
                            let mut xs: Vec<i64> = c.data.iter().map(|x| self.eg.value_to_base::<i64>(*x)).collect();
                            xs.sort();
                            return Ok(json!([2, xs]));
                        }
                    }
                    // a container of e-classes (or of containers): raw id + raw contents, recursively
                    let Some((kind, elems)) = self.container(v) else {
                        return Err(format!("container value of sort {name} is not readable"));
                    };
                    if !self.cont.contains_key(&v.rep()) {
                        let mut ej = vec![];
                        for (i, e) in elems.iter().enumerate() {
                            ej.push(self.val(&inner[i % inner.len()], *e)?);
                        }
                        self.cont.insert(v.rep(), (kind, ej));
                    }
                    return Ok(json!([3, v.rep()]));
                }
                Err(format!("unsupported sort {name}"))
            }
        }
    }

    pub fn table(&mut self, name: &str) -> Result<J, String> {
        let Some(func) = self.eg.get_function(name) else {
            return Ok(json!([]));
        };
        let ft = func.func_type().clone();
        let mut rows: Vec<(Vec<Value>, Value, bool)> = vec![];
        let is_con = matches!(ft.subtype, egglog::ast::FunctionSubtype::Constructor);
        if is_con {
            self.eg
                .constructor_enodes(name, |e| rows.push((e.children.to_vec(), e.eclass, e.subsumed)))
                .map_err(|e| e.to_string())?;
        } else {
            self.eg
                .function_entries(name, |e| rows.push((e.inputs.to_vec(), e.output, e.subsumed)))
                .map_err(|e| e.to_string())?;
        }
        let mut out = vec![];
        for (a, o, s) in rows {
            let mut aj = vec![];
            for (i, v) in a.iter().enumerate() {
                aj.push(self.val(&ft.input[i], *v)?);
            }
            let oj = self.val(&ft.output, o)?;
            out.push(json!({"a": aj, "o": oj, "s": if s { 1 } else { 0 }}));
        }
        Ok(J::Array(out))
    }
}

/// canonical id of an arbitrary raw id (also of ids that no row mentions any more)
pub fn canon_of(eg: &EGraph, tables: &[String], id: u32) -> Option<u32> {
    for t in tables {
        if let Some(f) = eg.get_function(t) {
            let ft = f.func_type();
            for s in ft.input.iter().chain(std::iter::once(&ft.output)) {
                if s.is_eq_sort() {
                    let cid = eg.value_to_class_id(s, Value::new_const(id)).to_string();
                    return cid.rsplit_once('-').and_then(|x| x.1.parse().ok());
                }
            }
        }
    }
    None
}

pub fn dump(eg: &EGraph, tables: &[String]) -> Result<(J, J, J), String> {
    let mut d = Dumper::new(eg);
    let mut tabs = vec![];
    for t in tables {
        tabs.push(d.table(t)?);
    }
    let canon: Vec<J> = d.canon.iter().map(|(k, v)| json!([k, v])).collect();
    let cont: Vec<J> = d.cont.iter().map(|(k, (kind, e))| json!({"id": k, "k": kind, "e": e})).collect();
    Ok((J::Array(tabs), J::Array(canon), J::Array(cont)))
}

pub fn new_egraph(mode: &J) -> EGraph {
    let threads = mode["threads"].as_u64().unwrap_or(1) as usize;
    let enc = mode["enc"].as_str().unwrap_or("plain");
    let mut eg = match enc {
        "term" => EGraph::new_with_term_encoding(),
        "proof" => EGraph::new_with_proofs(),
        _ => EGraph::default(),
    };
    if enc == "reparse" {
        // runs the printed, desugared, term-encoded program: reserved (internal) names must be accepted
        eg.ensure_no_reserved_symbols(false);
    }
    eg.set_num_threads(threads);
    if let Some(b) = mode["seminaive"].as_bool() {
        eg.seminaive = b;
    }
    if let Some(b) = mode["nodecomp"].as_bool() {
        eg.no_decomp = b;
    }
    eg
}

pub const HUGE: u64 = 100_000_000;

/// structural copy of a term of the TermDag (no interpretation)
pub fn term_json(dag: &egglog::TermDag, t: egglog::TermId) -> J {
    match dag.get(t) {
        egglog::Term::Lit(egglog::ast::Literal::Int(i)) => json!({"i": i}),
        egglog::Term::Lit(egglog::ast::Literal::Bool(b)) => json!({"i": if *b { 1 } else { 0 }}),
        egglog::Term::Lit(l) => json!({"n": format!("lit:{l}"), "a": []}),
        egglog::Term::Var(v) => json!({"n": format!("var:{v}"), "a": []}),
        egglog::Term::App(f, ch) => {
            let a: Vec<J> = ch.iter().map(|c| term_json(dag, *c)).collect();
            json!({"n": f, "a": a})
        }
    }
}

pub fn outputs_json(outs: &[CommandOutput]) -> (Vec<J>, Option<bool>) {
    let mut v = vec![];
    let mut upd = None;
    for o in outs {
        match o {
            CommandOutput::RunSchedule(r) => {
                upd = Some(upd.unwrap_or(false) | r.updated);
                v.push(json!({"k": "run", "updated": r.updated, "can_stop": r.can_stop}));
            }
            CommandOutput::ExtractBest(dag, cost, t) => {
                // TLC integers are 32-bit: a cost a * i64::MAX + b is logged as a * HUGE + b (Extract.tla: Huge, Cap)
                let imax = i64::MAX as u64;
                let costn = (*cost / imax) * HUGE + (*cost % imax).min(HUGE - 1);
                v.push(json!({"k": "extract", "cost": cost.to_string(), "costn": costn, "text": dag.to_string(*t),
                              "term": term_json(dag, *t)}));
            }
            CommandOutput::ExtractVariants(dag, ts) => {
                let xs: Vec<J> = ts.iter().map(|t| term_json(dag, *t)).collect();
                let tx: Vec<String> = ts.iter().map(|t| dag.to_string(*t)).collect();
                v.push(json!({"k": "variants", "terms": xs, "texts": tx}));
            }
            CommandOutput::PrintFunctionSize(n) => v.push(json!({"k": "size", "n": n})),
            CommandOutput::PrintAllFunctionsSize(xs) => v.push(json!({"k": "sizes", "n": xs})),
            other => v.push(json!({"k": "other", "text": other.to_string()})),
        }
    }
    (v, upd)
}

/// Runs one command text under catch_unwind: ("ok"|"err"|"panic", outputs, message)
pub fn run_text(eg: &mut EGraph, text: &str) -> (&'static str, Vec<CommandOutput>, String) {
    let r = catch_unwind(AssertUnwindSafe(|| eg.parse_and_run_program(None, text)));
    match r {
        Ok(Ok(outs)) => ("ok", outs, String::new()),
        Ok(Err(e)) => ("err", vec![], e.to_string()),
        Err(p) => {
            let msg = if let Some(s) = p.downcast_ref::<String>() {
                s.clone()
            } else if let Some(s) = p.downcast_ref::<&str>() {
                s.to_string()
            } else {
                "panic".to_string()
            };
            ("panic", vec![], msg)
        }
    }
}

// ---------------------------------------------------------------- instrumented scheduler (C18)
#[derive(Default)]
pub struct SchedShared {
    /// rule name -> (mode, mask, seek)
    policy: std::collections::HashMap<String, (String, u64, bool)>,
    /// rule name -> names of the head's free variables
    vars: std::collections::HashMap<String, Vec<String>>,
    /// what filter_matches saw and did: (rule, offered tuples (raw), chosen indices, answer)
    offers: Vec<(String, Vec<Vec<u32>>, Vec<usize>, bool)>,
}

#[derive(Clone)]
pub struct Instr {
    shared: std::sync::Arc<std::sync::Mutex<SchedShared>>,
}

impl egglog::scheduler::Scheduler for Instr {
    fn filter_matches(&mut self, rule: &str, _ruleset: &str, m: &mut egglog::scheduler::Matches) -> bool {
        let mut g = self.shared.lock().unwrap();
        let vars = g.vars.get(rule).cloned().unwrap_or_default();
        let n = m.match_size();
        let mut offered = vec![];
        for i in 0..n {
            let mt = m.get_match(i);
            let mut t = vec![];
            for v in &vars {
                match catch_unwind(AssertUnwindSafe(|| mt.get_value(v).rep())) {
                    Ok(x) => t.push(x),
                    Err(_) => {
                        eprintln!("conform: scheduler match of rule {rule} has no variable {v}");
                        std::process::exit(2);
                    }
                }
            }
            offered.push(t);
        }
        let (mode, mask, seek) = g.policy.get(rule).cloned().unwrap_or(("all".to_string(), 0, true));
        let mut chosen = vec![];
        match mode.as_str() {
            "all" => {
                m.choose_all();
                chosen = (0..n).collect();
            }
            "none" => {}
            _ => {
                for i in 0..n {
                    if (mask >> (i % 16)) & 1 == 1 {
                        m.choose(i);
                        chosen.push(i);
                    }
                }
            }
        }
        g.offers.push((rule.to_string(), offered, chosen, seek));
        seek
    }
}

/// one scheduler step as dictated by the session; returns (res, msg, updated, sched json)
fn sched_step(eg: &mut EGraph, sid: egglog::scheduler::SchedulerId, shared: &std::sync::Arc<std::sync::Mutex<SchedShared>>, c: &J)
    -> (&'static str, String, Option<bool>, J) {
    {
        let mut g = shared.lock().unwrap();
        g.policy.clear();
        g.vars.clear();
        g.offers.clear();
        for r in c["rules"].as_array().cloned().unwrap_or_default() {
            let name = r["name"].as_str().unwrap_or("").to_string();
            g.policy.insert(name.clone(), (r["mode"].as_str().unwrap_or("all").to_string(), r["mask"].as_u64().unwrap_or(0), r["seek"].as_u64().unwrap_or(1) == 1));
            g.vars.insert(name, r["vars"].as_array().map(|a| a.iter().map(|v| format!("v{}", v.as_u64().unwrap_or(0))).collect()).unwrap_or_default());
        }
    }
    let rs = c["rs"].as_str().unwrap_or("").to_string();
    let r = catch_unwind(AssertUnwindSafe(|| eg.step_rules_with_scheduler(sid, &rs)));
    let (res, msg, upd) = match r {
        Ok(Ok(rep)) => ("ok", String::new(), Some(rep.updated)),
        Ok(Err(e)) => ("err", e.to_string(), None),
        Err(p) => ("panic", p.downcast_ref::<String>().cloned().or_else(|| p.downcast_ref::<&str>().map(|s| s.to_string())).unwrap_or_default(), None),
    };
    let g = shared.lock().unwrap();
    let mut out = vec![];
    for (rule, offered, chosen, seek) in &g.offers {
        let decl = c["rules"].as_array().and_then(|a| a.iter().find(|r| r["name"].as_str() == Some(rule.as_str())).cloned()).unwrap_or(J::Null);
        let sorts: Vec<String> = decl["sorts"].as_array().map(|a| a.iter().map(|x| x.as_str().unwrap_or("E").to_string()).collect()).unwrap_or_default();
        let off: Vec<J> = offered.iter().map(|t| {
            J::Array(t.iter().enumerate().map(|(i, v)| {
                match sorts.get(i).map(|s| s.as_str()) {
                    Some("i64") => json!([0, eg.value_to_base::<i64>(Value::new_const(*v))]),
                    Some("bool") => json!([0, eg.value_to_base::<bool>(Value::new_const(*v)) as i64]),
                    _ => json!([1, v]),
                }
            }).collect())
        }).collect();
        out.push(json!({"r": decl["idx"], "vars": decl["vars"], "name": rule, "offered": off, "chosen": chosen, "seek": *seek as u8}));
    }
    (res, msg, upd, J::Array(out))
}

/// C11, fourth treatment: the command is resolved (typechecked, desugared, term-encoded) by `resolver`,
/// printed, and the printed text is parsed and run by the plain engine `eg`.
pub fn run_text_reparsed(eg: &mut EGraph, resolver: &mut EGraph, text: &str) -> (&'static str, Vec<CommandOutput>, String) {
    let r = catch_unwind(AssertUnwindSafe(|| resolver.resolve_program(None, text)));
    let cmds = match r {
        Ok(Ok(c)) => c,
        Ok(Err(e)) => return ("err", vec![], format!("resolve: {e}")),
        Err(_) => return ("panic", vec![], "resolve_program panicked".to_string()),
    };
    let mut outs = vec![];
    for c in cmds {
        let printed = c.to_string();
        let (res, o, msg) = run_text(eg, &printed);
        outs.extend(o);
        if res != "ok" {
            return (res, outs, format!("{msg} [printed: {}]", printed.chars().take(200).collect::<String>()));
        }
    }
    ("ok", outs, String::new())
}

fn strings(j: &J) -> Vec<String> {
    j.as_array().map(|a| a.iter().map(|x| x.as_str().unwrap_or("").to_string()).collect()).unwrap_or_default()
}

pub fn run_session(sess: &J, out: &mut TraceOut) -> Result<(), String> {
    let mut slots: Vec<EGraph> = vec![new_egraph(&sess["mode"])];
    let tables = strings(&sess["tables"]);
    let reparse = sess["mode"]["enc"].as_str() == Some("reparse");
    let mut resolver = if reparse { Some(EGraph::new_with_term_encoding()) } else { None };
    for s in strings(&sess["setup"]) {
        let (res, _, msg) = match resolver.as_mut() {
            Some(rz) => run_text_reparsed(&mut slots[0], rz, &s),
            None => run_text(&mut slots[0], &s),
        };
        if res != "ok" {
            return Err(format!("session {}: setup `{}` failed: {} {}", sess["id"], s, res, msg));
        }
    }
    let mut decl = json!({"e": "decl", "id": sess["id"], "mode": sess["mode"], "prog": sess["prog"], "active": sess["active"]});
    for k in ["declared", "cmp"] {
        if !sess[k].is_null() {
            decl[k] = sess[k].clone();
        }
    }
    out.emit(decl);
    let steps = sess["steps"].as_array().ok_or("steps")?;
    let mut sched: Option<(egglog::scheduler::SchedulerId, std::sync::Arc<std::sync::Mutex<SchedShared>>)> = None;
    let mut maxid: u32 = 0;
    let want_fcanon = steps.iter().any(|st| st["c"]["k"].as_str() == Some("sstep"));
    for (i, st) in steps.iter().enumerate() {
        if st["op"].as_str() == Some("clone") {
            // EGraph::clone(): the copy becomes slot 1 (replacing an earlier copy)
            let from = st["from"].as_u64().unwrap_or(0) as usize;
            let copy = slots[from].clone();
            if slots.len() > 1 - from.min(1) && slots.len() == 2 {
                slots[1 - from] = copy;
            } else {
                slots.push(copy);
            }
            out.emit(json!({"e": "clone", "i": i}));
            continue;
        }
        let slot = st["slot"].as_u64().unwrap_or(0) as usize;
        let text = st["text"].as_str().ok_or("text")?;
        let mut sched_json = J::Null;
        let mut sched_upd = None;
        let (res, outs, msg) = if st["c"]["k"].as_str() == Some("sstep") {
            if sched.is_none() {
                let shared = std::sync::Arc::new(std::sync::Mutex::new(SchedShared::default()));
                let id = slots[0].add_scheduler(Box::new(Instr { shared: shared.clone() }));
                sched = Some((id, shared));
            }
            let (id, shared) = sched.as_ref().unwrap();
            let (res, msg, upd, sj) = sched_step(&mut slots[0], *id, shared, &st["c"]);
            // every raw id the scheduler was shown must be nameable: remember them for the canonical-id map
            for q in sj.as_array().cloned().unwrap_or_default() {
                for t in q["offered"].as_array().cloned().unwrap_or_default() {
                    for v in t.as_array().cloned().unwrap_or_default() {
                        if v[0].as_u64() == Some(1) {
                            maxid = maxid.max(v[1].as_u64().unwrap_or(0) as u32);
                        }
                    }
                }
            }
            sched_json = sj;
            sched_upd = upd;
            (res, vec![], msg)
        } else if let Some(rz) = resolver.as_mut() {
            run_text_reparsed(&mut slots[slot], rz, text)
        } else {
            run_text(&mut slots[slot], text)
        };
        if !st["raw"].is_null() {
            // large-database sessions: outcome always, raw dump only where asked for
            let mut ev = json!({"e": "rawcmd", "i": i, "c": st["c"], "text": text, "res": res, "msg": msg});
            if !st["expect"].is_null() {
                ev["expect"] = st["expect"].clone();
            }
            if st["raw"].as_str() == Some("dump") {
                match catch_unwind(AssertUnwindSafe(|| dump(&slots[slot], &tables))) {
                    Ok(Ok((tabs, canon, cont))) => {
                        ev["tabs"] = tabs;
                        ev["canon"] = canon;
                        ev["cont"] = cont;
                    }
                    _ => {
                        out.emit(json!({"e": "abort", "i": i, "c": st["c"], "text": text, "res": res, "slot": slot, "why": "dump failed"}));
                        return Ok(());
                    }
                }
            }
            out.emit(ev);
            continue;
        }
        let d = catch_unwind(AssertUnwindSafe(|| dump(&slots[slot], &tables)));
        let (tabs, canon, cont) = match d {
            Ok(Ok(x)) => x,
            Ok(Err(e)) => {
                // the read API refused to show a declared table: this is an observation, not a harness fault
                out.emit(json!({"e": "abort", "i": i, "c": st["c"], "text": text, "res": res, "slot": slot, "why": format!("read API error: {e}")}));
                return Ok(());
            }
            Err(_) => {
                out.emit(json!({"e": "abort", "i": i, "c": st["c"], "text": text, "res": res, "slot": slot, "why": "dump panicked"}));
                return Ok(());
            }
        };
        // a database that has outgrown what the trace specification re-computes in reasonable time ends
        // the session here (the event is not emitted; the prefix recorded so far is still validated)
        let nrows: usize = tabs.as_array().map(|t| t.iter().map(|x| x.as_array().map(|a| a.len()).unwrap_or(0)).sum()).unwrap_or(0);
        if nrows > sess["maxrows"].as_u64().unwrap_or(150) as usize {
            out.truncated += 1;
            return Ok(());
        }
        let (oj, upd) = outputs_json(&outs);
        let mut ev = json!({"e": "cmd", "i": i, "c": st["c"], "text": text, "res": res, "msg": msg,
                            "tabs": tabs, "canon": canon, "cont": cont, "outs": oj});
        if slots.len() > 1 {
            ev["slot"] = json!(slot);
            if let Ok(Ok((ot, oc, ocont))) = catch_unwind(AssertUnwindSafe(|| dump(&slots[1 - slot], &tables))) {
                ev["otabs"] = ot;
                ev["ocanon"] = oc;
                ev["ocont"] = ocont;
            }
        }
        if let Some(u) = upd.or(sched_upd) {
            ev["upd"] = json!(if u { 1 } else { 0 });
        }
        if !sched_json.is_null() {
            ev["sched"] = sched_json;
        }
        if want_fcanon {
            // canonical id of EVERY raw id seen so far in this session (also displaced ones)
            for p in ev["canon"].as_array().cloned().unwrap_or_default() {
                maxid = maxid.max(p[0].as_u64().unwrap_or(0) as u32);
            }
            let fc: Vec<J> = (0..=maxid).filter_map(|id| canon_of(&slots[slot], &tables, id).map(|c| json!([id, c]))).collect();
            ev["fcanon"] = J::Array(fc);
        }
        out.emit(ev);
    }
    Ok(())
}

pub fn main(args: &[String]) -> Result<(), String> {
    if std::env::var("CONFORM_VERBOSE").is_err() {
        std::panic::set_hook(Box::new(|_| {}));
    }
    let inp = arg(args, "--in").ok_or("--in")?;
    let outp = arg(args, "--out").ok_or("--out")?;
    let mut out = TraceOut::create(outp)?;
    let mut n = 0;
    for sess in read_lines(inp)? {
        run_session(&sess, &mut out)?;
        n += 1;
    }
    let tr = out.truncated;
    let ev = out.finish();
    let pts = egglog_concurrency::verif::take_counts();
    println!("{{\"sessions\": {n}, \"events\": {ev}, \"truncated\": {tr}, \"plans_single\": {}, \"plans_decomposed\": {}}}", pts[40], pts[41]);
    Ok(())
}
