//! `conform`: conformance harness binding the TLA+ specification suite under
//! /verif/spec to the real egglog crates (path dependencies on /repo).
//! Every sub-command executes operation sequences against the real API and
//! writes an ndjson trace that a `*_Trace.tla` module validates; no
//! interpretation of observed state happens here.
mod conc;
mod prove;
mod cuf;
mod session;
mod syntax;
mod table;
mod uf;
mod util;

fn main() {
    let args: Vec<String> = std::env::args().collect();
    if args.len() < 2 {
        eprintln!("usage: conform <driver> ...");
        std::process::exit(2);
    }
    let rest = &args[2..];
    let r = match args[1].as_str() {
        "uf" => uf::main(rest),
        "session" => session::main(rest),
        "table" => table::main(rest),
        "conc" => conc::main(rest),
        "cuf" => cuf::main(rest),
        "syntax" => syntax::main(rest),
        "prove" => prove::main(rest),
        other => Err(format!("unknown driver {other}")),
    };
    if let Err(e) = r {
        eprintln!("conform: {e}");
        std::process::exit(2);
    }
}
