//! Driver for spec/Syntax_Trace.tla (C15): text -> real parser -> real printer -> tokens -> parser -> printer.
//! The only processing done here is lexical: the printed text is split into parentheses, quoted
//! strings and atoms; an atom that reads as a float (and not as an integer) is replaced by its bits.
use crate::util::*;
use serde_json::{Value as J, json};
use std::panic::{AssertUnwindSafe, catch_unwind};

fn lex(text: &str) -> Vec<String> {
    let cs: Vec<char> = text.chars().collect();
    let mut out = vec![];
    let mut i = 0;
    while i < cs.len() {
        let c = cs[i];
        if c.is_whitespace() {
            i += 1;
        } else if c == '(' || c == ')' {
            out.push(c.to_string());
            i += 1;
        } else if c == '"' {
            let mut j = i + 1;
            while j < cs.len() && cs[j] != '"' {
                if cs[j] == '\\' {
                    j += 1;
                }
                j += 1;
            }
            out.push(cs[i..(j + 1).min(cs.len())].iter().collect());
            i = j + 1;
        } else if c == ';' {
            while i < cs.len() && cs[i] != '\n' {
                i += 1;
            }
        } else {
            let mut j = i;
            while j < cs.len() && !cs[j].is_whitespace() && cs[j] != '(' && cs[j] != ')' && cs[j] != '"' {
                j += 1;
            }
            let atom: String = cs[i..j].iter().collect();
            if atom != "true" && atom != "false" && atom.parse::<i64>().is_err() {
                if let Ok(f) = atom.parse::<f64>() {
                    let f = if f.is_nan() { f64::NAN } else { f };
                    out.push(format!("<f:{:016x}>", f.to_bits()));
                    i = j;
                    continue;
                }
            }
            out.push(atom);
            i = j;
        }
    }
    out
}

/// parse + print every command of `text`: (res, printed text)
fn parse_print(text: &str) -> (&'static str, String, String) {
    let r = catch_unwind(AssertUnwindSafe(|| {
        let mut eg = egglog::EGraph::default();
        eg.parse_program(None, text).map(|cmds| cmds.iter().map(|c| c.to_string()).collect::<Vec<_>>().join("\n"))
    }));
    match r {
        Ok(Ok(s)) => ("ok", s, String::new()),
        Ok(Err(e)) => ("err", String::new(), e.to_string()),
        Err(_) => ("panic", String::new(), "panic".to_string()),
    }
}

pub fn main(args: &[String]) -> Result<(), String> {
    std::panic::set_hook(Box::new(|_| {}));
    let inp = arg(args, "--in").ok_or("--in")?;
    let outp = arg(args, "--out").ok_or("--out")?;
    let mut out = TraceOut::create(outp)?;
    for case in read_lines(inp)? {
        let text = case["text"].as_str().ok_or("text")?;
        let (res1, p1, msg1) = parse_print(text);
        let (res2, p2, msg2) = if res1 == "ok" { parse_print(&p1) } else { ("skip", String::new(), String::new()) };
        out.emit(json!({"e": "syn", "id": case["id"], "ast": case["ast"], "text": text, "res1": res1, "printed": p1, "tok2": lex(&p1),
                        "res2": res2, "tok3": lex(&p2), "msg": format!("{msg1}{msg2}").chars().take(300).collect::<String>()}));
    }
    let n = out.finish();
    println!("{{\"events\": {n}}}");
    Ok(())
}
