//! Driver for spec/ConcUF_Trace.tla (C17, concurrent part): call / return
//! histories of egglog_union_find::concurrent::UnionFind.
//!  * random scenarios: a few threads, a few operations each, small initial
//!    capacity (growth happens), seeded perturbation at the hook points;
//!  * scripted scenarios: one operation is HELD at a schedule point (a gate of the
//!    cfg(egglog_verif) hooks) while other operations run to completion -- the
//!    shape of the interleavings the model checker reports.
//! Calls and returns go to the one totally ordered log; nothing is judged here.
use crate::util::*;
use egglog_concurrency::verif;
use egglog_numeric_id::NumericId;
use egglog_numeric_id::define_id;
use egglog_union_find::concurrent::UnionFind;
use rand::rngs::StdRng;
use rand::{Rng, SeedableRng};
use serde_json::{Value as J, json};
use std::time::{Duration, Instant};

define_id!(pub CId, u32, "an id");

const U_CALL: u32 = 60; // a = op number
const U_RET: u32 = 61; // a = op number, b = res packed

#[derive(Clone, Debug)]
struct Op {
    id: u64,
    op: &'static str,
    a: usize,
    b: usize,
}

fn exec(uf: &UnionFind<CId>, o: &Op) {
    verif::log(U_CALL, o.id, 0);
    let (x, y) = match o.op {
        "union" => {
            let (p, c) = uf.union(CId::from_usize(o.a), CId::from_usize(o.b));
            (p.index(), c.index())
        }
        "find" => {
            let r = uf.find(CId::from_usize(o.a)).index();
            (r, r)
        }
        _ => {
            let s = uf.same_set(CId::from_usize(o.a), CId::from_usize(o.b)) as usize;
            (s, s)
        }
    };
    verif::log(U_RET, o.id, ((x as u64) << 32) | y as u64);
}

fn op_json(o: &Op) -> J {
    json!({"id": o.id, "op": o.op, "a": o.a, "b": o.b})
}

fn emit(out: &mut TraceOut, kind: &str, n: usize, ops: &[Op], uf: &UnionFind<CId>, extra: J) {
    let log = verif::drain_log();
    let mut b = json!({"e": "u_begin", "kind": kind, "n": n, "ops": ops.iter().map(op_json).collect::<Vec<_>>()});
    if let Some(m) = extra.as_object() {
        for (k, v) in m {
            b[k] = v.clone();
        }
    }
    out.emit(b);
    for ev in &log {
        match ev.kind {
            U_CALL => out.emit(json!({"e": "u_call", "th": ev.thread, "id": ev.a})),
            U_RET => out.emit(json!({"e": "u_ret", "th": ev.thread, "id": ev.a, "res": [(ev.b >> 32) as u32, (ev.b & 0xffff_ffff) as u32]})),
            _ => {}
        }
    }
    let reps: Vec<usize> = (0..n).map(|i| uf.find(CId::from_usize(i)).index()).collect();
    out.emit(json!({"e": "u_end", "reps": reps}));
}

fn random_op(r: &mut StdRng, n: usize, id: u64) -> Op {
    let k = r.random_range(0..10);
    let a = r.random_range(0..n);
    let mut b = r.random_range(0..n);
    if b == a {
        b = (a + 1) % n;
    }
    Op { id, op: if k < 5 { "union" } else if k < 8 { "find" } else { "same" }, a, b }
}

fn random_scenario(seed: u64, k: u64, out: &mut TraceOut) {
    let mut rng = StdRng::seed_from_u64(seed.wrapping_mul(86028121).wrapping_add(k));
    let n = rng.random_range(3..7usize);
    let nthreads = rng.random_range(2..5usize);
    let mut progs: Vec<Vec<Op>> = vec![];
    let mut id = 0;
    for _ in 0..nthreads {
        let m = rng.random_range(1..4usize);
        let mut p = vec![];
        for _ in 0..m {
            id += 1;
            p.push(random_op(&mut rng, n, id));
        }
        progs.push(p);
    }
    let uf: UnionFind<CId> = UnionFind::with_capacity(rng.random_range(1..3usize));
    std::thread::scope(|s| {
        for p in &progs {
            let uf = &uf;
            s.spawn(move || {
                for o in p {
                    exec(uf, o);
                }
            });
        }
    });
    let all: Vec<Op> = progs.into_iter().flatten().collect();
    emit(out, "random", n, &all, &uf, json!({"k": k, "threads": nthreads}));
}

/// `setup` ops run first (sequentially), then `held` starts on its own thread and is stopped at
/// schedule point `gate`; `during` ops run to completion on this thread; the gate is released.
fn scripted_scenario(sc: &J, out: &mut TraceOut) -> Result<(), String> {
    let n = sc["n"].as_u64().ok_or("n")? as usize;
    let mut id = 0;
    let mut parse = |j: &J| -> Op {
        id += 1;
        let op = match j["op"].as_str().unwrap_or("find") {
            "union" => "union",
            "same" => "same",
            _ => "find",
        };
        Op { id, op, a: j["a"].as_u64().unwrap_or(0) as usize, b: j["b"].as_u64().unwrap_or(0) as usize }
    };
    let setup: Vec<Op> = sc["setup"].as_array().map(|a| a.iter().map(&mut parse).collect()).unwrap_or_default();
    let held = parse(&sc["held"]);
    let during: Vec<Op> = sc["during"].as_array().map(|a| a.iter().map(&mut parse).collect()).unwrap_or_default();
    let gate = sc["gate"].as_u64().ok_or("gate")? as usize;
    let uf: UnionFind<CId> = UnionFind::with_capacity(sc["cap"].as_u64().unwrap_or(2) as usize);
    for o in &setup {
        exec(&uf, o);
    }
    verif::arm_gate(gate);
    let mut reached = false;
    std::thread::scope(|s| {
        let h = s.spawn(|| exec(&uf, &held));
        let t0 = Instant::now();
        while !verif::gate_reached(gate) && !h.is_finished() && t0.elapsed() < Duration::from_secs(20) {
            std::thread::yield_now();
        }
        reached = verif::gate_reached(gate);
        if reached {
            for o in &during {
                exec(&uf, o);
            }
        }
        verif::release_gate(gate);
    });
    if !reached {
        // the held operation never passed this point: run the rest anyway, sequentially
        for o in &during {
            exec(&uf, o);
        }
    }
    let mut all = setup;
    all.push(held);
    all.extend(during);
    emit(out, "scripted", n, &all, &uf, json!({"gate": gate, "reached": reached as u8, "script": sc}));
    Ok(())
}

pub fn main(args: &[String]) -> Result<(), String> {
    std::panic::set_hook(Box::new(|_| {}));
    let outp = arg(args, "--out").ok_or("--out")?;
    let mut out = TraceOut::create(outp)?;
    verif::set_logging(true);
    let mut nscript = 0;
    let mut reached = 0;
    if let Some(path) = arg(args, "--scripts") {
        verif::set_perturbation(0, 0);
        for sc in read_lines(path)? {
            let before = out.n;
            scripted_scenario(&sc, &mut out)?;
            let _ = before;
            nscript += 1;
        }
    }
    let _ = &mut reached;
    let seed = arg_usize(args, "--seed", 1) as u64;
    let n = arg_usize(args, "--random", 0) as u64;
    let perturb = arg_usize(args, "--perturb", 400) as u64;
    for k in 0..n {
        verif::set_perturbation(seed * 1000 + k, if k % 4 == 0 { 0 } else { perturb });
        random_scenario(seed, k, &mut out);
    }
    let points = verif::take_counts();
    let ev = out.finish();
    println!("{}", json!({"scripted": nscript, "random": n, "events": ev, "points": points}));
    Ok(())
}
