use serde_json::Value as J;
use std::io::{BufRead, BufWriter, Write};

pub fn read_lines(path: &str) -> Result<Vec<J>, String> {
    let f = std::fs::File::open(path).map_err(|e| format!("{path}: {e}"))?;
    let mut out = vec![];
    for line in std::io::BufReader::new(f).lines() {
        let line = line.map_err(|e| e.to_string())?;
        if line.trim().is_empty() {
            continue;
        }
        out.push(serde_json::from_str(&line).map_err(|e| format!("{path}: {e}"))?);
    }
    Ok(out)
}

pub struct TraceOut {
    w: BufWriter<std::fs::File>,
    pub n: usize,
    pub truncated: usize,
}

impl TraceOut {
    pub fn create(path: &str) -> Result<Self, String> {
        let f = std::fs::File::create(path).map_err(|e| format!("{path}: {e}"))?;
        Ok(TraceOut { w: BufWriter::new(f), n: 0, truncated: 0 })
    }
    pub fn emit(&mut self, v: J) {
        serde_json::to_writer(&mut self.w, &v).unwrap();
        self.w.write_all(b"\n").unwrap();
        self.n += 1;
    }
    pub fn finish(mut self) -> usize {
        self.w.flush().unwrap();
        self.n
    }
}

pub fn arg<'a>(args: &'a [String], name: &str) -> Option<&'a str> {
    args.iter().position(|a| a == name).and_then(|i| args.get(i + 1)).map(|s| s.as_str())
}

pub fn arg_usize(args: &[String], name: &str, default: usize) -> usize {
    arg(args, name).and_then(|s| s.parse().ok()).unwrap_or(default)
}
