//! Driver for spec/Table.tla: a `SortedWritesTable` [key, val, ts] (sorted by ts, merge = keep the
//! larger val) behind the public `Database` API, and a `DisplacedTable`.  After every operation the
//! observable state is logged: len, full scan, point lookups, constrained scans, version.
use crate::util::*;
use egglog_concurrency::ThreadPool;
use egglog_core_relations::{ColumnId, Constraint, Database, DisplacedTable, SortedWritesTable, Table, TableId, Value};
use egglog_numeric_id::NumericId;
use rand::{Rng, SeedableRng, rngs::StdRng};
use serde_json::{Value as J, json};
use std::panic::{AssertUnwindSafe, catch_unwind};

const NKEYS: u32 = 4;
const MAXTS: u32 = 6;

fn v(n: u32) -> Value {
    Value::new_const(n)
}

fn rows_json(db: &Database, id: TableId, c: Option<&Constraint>) -> J {
    let t = db.get_table(id);
    let all = t.all();
    let sub = match c {
        Some(c) => t.refine_one(all, c),
        None => t.refine_live(all),
    };
    let buf = t.scan(sub.as_ref());
    let rows: Vec<J> = buf.iter().map(|(_, r)| json!(r.iter().map(|x| x.rep()).collect::<Vec<u32>>())).collect();
    J::Array(rows)
}

fn observe(db: &Database, id: TableId, arity: usize) -> J {
    let t = db.get_table(id);
    let mut get = vec![];
    for k in 0..NKEYS {
        match t.get_row(&[v(k)]) {
            Some(r) => get.push(json!(r.vals.iter().map(|x| x.rep()).collect::<Vec<u32>>())),
            None => get.push(json!([])),
        }
    }
    let tscol = ColumnId::new((arity - 1) as u32);
    let mut cons = vec![];
    let mut add = |name: &str, col: u32, val: u32, c: Constraint| {
        cons.push(json!({"c": name, "col": col + 1, "val": val, "rows": rows_json(db, id, Some(&c))}));
    };
    for k in 0..NKEYS {
        add("eq", 0, k, Constraint::EqConst { col: ColumnId::new(0), val: v(k) });
    }
    for t2 in 0..=MAXTS {
        add("lt", (arity - 1) as u32, t2, Constraint::LtConst { col: tscol, val: v(t2) });
        add("ge", (arity - 1) as u32, t2, Constraint::GeConst { col: tscol, val: v(t2) });
    }
    add("gt", 1, 1, Constraint::GtConst { col: ColumnId::new(1), val: v(1) });
    add("le", 1, 1, Constraint::LeConst { col: ColumnId::new(1), val: v(1) });
    cons.push(json!({"c": "eqcol", "col": 1, "val": 2, "rows": rows_json(db, id, Some(&Constraint::Eq { l_col: ColumnId::new(0), r_col: ColumnId::new(1) }))}));
    // fast_subset on the sort column must agree with the scan-and-filter answer
    let mut fast = vec![];
    for t2 in 0..=MAXTS {
        for (name, c) in [("lt", Constraint::LtConst { col: tscol, val: v(t2) }), ("ge", Constraint::GeConst { col: tscol, val: v(t2) }),
                          ("eq", Constraint::EqConst { col: tscol, val: v(t2) })] {
            if let Some(s) = t.fast_subset(&c) {
                let live = t.refine_live(s);
                let buf = t.scan(live.as_ref());
                let rows: Vec<J> = buf.iter().map(|(_, r)| json!(r.iter().map(|x| x.rep()).collect::<Vec<u32>>())).collect();
                fast.push(json!({"c": name, "val": t2, "rows": rows}));
            }
        }
    }
    let ver = t.version();
    json!({"len": t.len(), "scan": rows_json(db, id, None), "get": get, "cons": cons, "fast": fast,
           "ver": [ver.major.index(), ver.minor.index()], "est": db.estimate_size(id, None)})
}

fn run_sorted(ops: &[J], out: &mut TraceOut, unsorted: bool) {
    let mut db = Database::new();
    let table = SortedWritesTable::new(
        1,
        3,
        if unsorted { None } else { Some(ColumnId::new(2)) },
        vec![],
        Box::new(move |_, cur, new, out| {
            if new[1] > cur[1] {
                if unsorted {
                    // a combining merge: the larger value with the timestamp of the row it replaces
                    out.extend_from_slice(&[new[0], new[1], cur[2]]);
                } else {
                    out.extend_from_slice(new);
                }
                true
            } else {
                false
            }
        }),
    );
    let id = db.add_table(table, std::iter::empty(), std::iter::empty());
    let mut ts = 0u32;
    out.emit(json!({"e": "tnew", "obs": observe(&db, id, 3)}));
    for op in ops {
        let name = op["op"].as_str().unwrap();
        let k = op["k"].as_u64().unwrap_or(0) as u32;
        let val = op["v"].as_u64().unwrap_or(0) as u32;
        let mut ev = json!({"e": name, "k": k, "v": val, "t": ts});
        let r = catch_unwind(AssertUnwindSafe(|| {
            match name {
                "ins" => db.new_buffer(id).stage_insert(&[v(k), v(val), v(ts)]),
                "rem" => db.new_buffer(id).stage_remove(&[v(k)]),
                "tick" => ts += 1,
                "merge" => {
                    let ch = db.merge_all();
                    ev["changed"] = json!(if ch { 1 } else { 0 });
                }
                "clear" => db.clear_table(id),
                _ => panic!("bad op"),
            }
            observe(&db, id, 3)
        }));
        match r {
            Ok(obs) => {
                ev["obs"] = obs;
                out.emit(ev);
            }
            Err(_) => {
                ev["e"] = json!("tpanic");
                ev["op"] = json!(name);
                out.emit(ev);
                return;
            }
        }
    }
}

/// DisplacedTable: rows (child, canonical, ts); ops: ins(a, b) with the current ts, tick, merge, clear
fn observe_uf(db: &Database, id: TableId) -> J {
    let t = db.get_table(id);
    let mut get = vec![];
    for k in 0..6u32 {
        match t.get_row(&[v(k)]) {
            Some(r) => get.push(json!(r.vals.iter().map(|x| x.rep()).collect::<Vec<u32>>())),
            None => get.push(json!([])),
        }
    }
    let mut canon = vec![];
    for k in 0..6u32 {
        canon.push(t.get_row_column(&[v(k)], ColumnId::new(1)).map(|x| x.rep()).unwrap_or(99));
    }
    json!({"len": t.len(), "scan": rows_json(db, id, None), "get": get, "canon": canon})
}

fn run_uf(ops: &[J], out: &mut TraceOut) {
    let mut db = Database::new();
    let id = db.add_table(DisplacedTable::default(), std::iter::empty(), std::iter::empty());
    let mut ts = 0u32;
    out.emit(json!({"e": "unew", "obs": observe_uf(&db, id)}));
    for op in ops {
        let name = op["op"].as_str().unwrap();
        let a = op["k"].as_u64().unwrap_or(0) as u32;
        let b = op["v"].as_u64().unwrap_or(0) as u32;
        let mut ev = json!({"e": format!("u{name}"), "a": a, "b": b, "t": ts});
        let r = catch_unwind(AssertUnwindSafe(|| {
            match name {
                "ins" => db.new_buffer(id).stage_insert(&[v(a), v(b), v(ts)]),
                "tick" => ts += 1,
                "merge" => {
                    let ch = db.merge_all();
                    ev["changed"] = json!(if ch { 1 } else { 0 });
                }
                "clear" => db.clear_table(id),
                _ => panic!("bad op"),
            }
            observe_uf(&db, id)
        }));
        match r {
            Ok(obs) => {
                ev["obs"] = obs;
                out.emit(ev);
            }
            Err(_) => {
                out.emit(json!({"e": "upanic", "op": name, "a": a, "b": b, "t": ts}));
                return;
            }
        }
    }
}

fn random_ops(rng: &mut StdRng, len: usize, uf: bool) -> Vec<J> {
    (0..len)
        .map(|_| {
            let x = rng.random_range(0..100);
            let op = if x < 45 { "ins" } else if x < 60 && !uf { "rem" } else if x < 70 { "tick" } else if x < 97 { "merge" } else { "clear" };
            if uf {
                json!({"op": op, "k": rng.random_range(0..6), "v": rng.random_range(0..6)})
            } else {
                json!({"op": op, "k": rng.random_range(0..NKEYS), "v": rng.random_range(1..4)})
            }
        })
        .collect()
}

pub fn main(args: &[String]) -> Result<(), String> {
    if std::env::var("VERIF_SHOW_PANICS").is_err() {
        std::panic::set_hook(Box::new(|_| {}));
    }
    let outp = arg(args, "--out").ok_or("--out")?;
    let threads = arg_usize(args, "--threads", 1);
    let unsorted = args.iter().any(|a| a == "--unsorted");
    let mut out = TraceOut::create(outp)?;
    let pool = ThreadPool::new(threads);
    pool.install(|| -> Result<(), String> {
        if let Some(path) = arg(args, "--replays") {
            for r in read_lines(path)? {
                run_sorted(r.as_array().ok_or("replay must be a list")?, &mut out, unsorted);
            }
        }
        if let Some(path) = arg(args, "--uf-replays") {
            for r in read_lines(path)? {
                run_uf(r.as_array().ok_or("replay must be a list")?, &mut out);
            }
        }
        let mut rng = StdRng::seed_from_u64(arg_usize(args, "--seed", 1) as u64);
        for _ in 0..arg_usize(args, "--random", 0) {
            let len = arg_usize(args, "--len", 60);
            // ts must stay within MAXTS: ticks are rare enough; cap by dropping extra ticks
            // precondition of the table: all inserts of one merge carry the same timestamp, so a tick is
            // only issued when no insert is staged (a merge is put in front of it otherwise)
            let raw = random_ops(&mut rng, len, false);
            let mut ops = vec![];
            let mut nt = 0;
            let mut staged = false;
            for o in raw {
                match o["op"].as_str().unwrap() {
                    "tick" => {
                        nt += 1;
                        if nt > MAXTS as usize {
                            continue;
                        }
                        if staged {
                            ops.push(json!({"op": "merge", "k": 0, "v": 0}));
                            staged = false;
                        }
                    }
                    "ins" => staged = true,
                    "merge" | "clear" => staged = false,
                    _ => {}
                }
                ops.push(o);
            }
            run_sorted(&ops, &mut out, unsorted);
        }
        for _ in 0..arg_usize(args, "--uf-random", 0) {
            let mut ops = random_ops(&mut rng, arg_usize(args, "--len", 60) / 2, true);
            let mut nt = 0;
            ops.retain(|o| {
                if o["op"] == "tick" {
                    nt += 1;
                    nt <= MAXTS as usize
                } else {
                    true
                }
            });
            run_uf(&ops, &mut out);
        }
        Ok(())
    })?;
    let n = out.finish();
    println!("{{\"events\": {n}}}");
    Ok(())
}
