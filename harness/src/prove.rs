//! Driver for the second clause of C12: the proof `(prove goal)` extracts is checked by the in-tree checker
//! against a REFERENCE program installed with `EGraph::set_proof_checking_program`: the original program,
//! or a variant from which the facts / the rules were removed.  Accepted = prove returns Ok; rejected = it
//! returns an error or panics.  The verdicts are logged; the specification decides which were required.
use crate::util::*;
use egglog::EGraph;
use serde_json::json;
use std::panic::{AssertUnwindSafe, catch_unwind};

fn verdict(real: &str, reference: &str, goal: &str) -> (&'static str, String) {
    let r = catch_unwind(AssertUnwindSafe(|| -> Result<(&'static str, String), String> {
        let mut eg = EGraph::new_with_proofs();
        eg.parse_and_run_program(None, real).map_err(|e| format!("real program: {e}"))?;
        let parsed = eg.parse_program(None, reference).map_err(|e| format!("reference program: {e}"))?;
        eg.set_proof_checking_program(parsed, false).map_err(|e| format!("reference program: {e}"))?;
        let res = catch_unwind(AssertUnwindSafe(|| eg.parse_and_run_program(None, goal)));
        Ok(match res {
            Ok(Ok(_)) => ("acc", String::new()),
            Ok(Err(e)) => ("rej", e.to_string().chars().take(160).collect()),
            Err(_) => ("rej", "panic".to_string()),
        })
    }));
    match r {
        Ok(Ok(v)) => v,
        Ok(Err(e)) => ("setup-failed", e.chars().take(200).collect()),
        Err(_) => ("setup-failed", "panic while running the real program".to_string()),
    }
}

pub fn main(args: &[String]) -> Result<(), String> {
    std::panic::set_hook(Box::new(|_| {}));
    let inp = arg(args, "--in").ok_or("--in")?;
    let outp = arg(args, "--out").ok_or("--out")?;
    let mut out = TraceOut::create(outp)?;
    for case in read_lines(inp)? {
        let real = case["real"].as_str().ok_or("real")?;
        let goal = case["goal"].as_str().ok_or("goal")?;
        let mut pv = json!({});
        let mut msgs = json!({});
        for (name, prog) in case["variants"].as_object().ok_or("variants")? {
            let (v, msg) = verdict(real, prog.as_str().unwrap_or(""), goal);
            pv[name] = json!(v);
            msgs[name] = json!(msg);
        }
        out.emit(json!({"e": "pv", "id": case["id"], "step": case["step"], "goal": goal, "pv": pv, "msgs": msgs}));
    }
    let n = out.finish();
    println!("{{\"events\": {n}}}");
    Ok(())
}
