//! Driver for spec/UnionFind.tla: sequential `egglog_union_find::UnionFind`.
use crate::util::*;
use egglog_numeric_id::NumericId;
use egglog_union_find::UnionFind;
use rand::{Rng, SeedableRng, rngs::StdRng};
use serde_json::{Value as J, json};

use egglog_numeric_id::define_id;
define_id!(pub Id, u32, "an id");

const NIDS: usize = 6;

fn reps(uf: &UnionFind<Id>) -> Vec<usize> {
    (0..NIDS).map(|i| uf.find_naive(Id::from_usize(i)).index()).collect()
}

fn run_ops(ops: &[J], out: &mut TraceOut) {
    let mut uf: UnionFind<Id> = UnionFind::default();
    out.emit(json!({"e": "new"}));
    for op in ops {
        let name = op["op"].as_str().unwrap();
        let a = op["a"].as_u64().unwrap() as usize;
        let b = op["b"].as_u64().unwrap_or(0) as usize;
        let ret: (usize, usize) = match name {
            "union" => {
                let (p, c) = uf.union(Id::from_usize(a), Id::from_usize(b));
                (p.index(), c.index())
            }
            "find" => {
                let r = uf.find(Id::from_usize(a)).index();
                (r, r)
            }
            "find_naive" => {
                let r = uf.find_naive(Id::from_usize(a)).index();
                (r, r)
            }
            "reset" => {
                uf.reset();
                (0, 0)
            }
            _ => panic!("bad op"),
        };
        out.emit(json!({"e": name, "a": a, "b": b, "ret": [ret.0, ret.1], "reps": reps(&uf)}));
    }
}

pub fn main(args: &[String]) -> Result<(), String> {
    let outp = arg(args, "--out").ok_or("--out")?;
    let mut out = TraceOut::create(outp)?;
    if let Some(path) = arg(args, "--replays") {
        for r in read_lines(path)? {
            run_ops(r.as_array().ok_or("replay must be a list")?, &mut out);
        }
    }
    let nrand = arg_usize(args, "--random", 0);
    let len = arg_usize(args, "--len", 30);
    let seed = arg_usize(args, "--seed", 1) as u64;
    let mut rng = StdRng::seed_from_u64(seed);
    for _ in 0..nrand {
        let ops: Vec<J> = (0..len)
            .map(|_| {
                let k = rng.random_range(0..20);
                let a = rng.random_range(0..NIDS);
                let b = rng.random_range(0..NIDS);
                let op = match k {
                    0..=9 => "union",
                    10..=14 => "find",
                    15..=18 => "find_naive",
                    _ => "reset",
                };
                json!({"op": op, "a": a, "b": b})
            })
            .collect();
        run_ops(&ops, &mut out);
    }
    let n = out.finish();
    println!("{{\"events\": {n}}}");
    Ok(())
}
